#!/bin/sh
# Offline setup: make sure hypothesis is importable by /venv/bin/python, then self-test the engine.
cd "$(dirname "$0")"
if ! /venv/bin/python -c "import hypothesis" 2>/dev/null; then
  /venv/bin/pip install --no-index --find-links /opt/veriftools/wheels --target /verif/.deps hypothesis || exit 1
fi
PYTHONDONTWRITEBYTECODE=1 /venv/bin/python -m vlib.selftest
