"""Hypothesis strategy for typed programs (DESIGN §2.2).

The generator executes the pandas side while it draws, so every operator is
offered only on values where it is well typed (construction, not
rejection).  A step on which pandas raises is simply not added."""
from hypothesis import strategies as st

from . import ops as O
from . import tables as T
from .interp import merge_flags


class Profile:
    def __init__(self, name, weights=None, exclude=(), max_steps=6, max_rows=12, n_tables=(1, 2), only=None,
                 index_kinds=("range", "int", "str", "float", "dt"), need_pandas_ok=False, final=None, siblings=0):
        self.name = name
        self.weights = weights or {}
        self.exclude = set(exclude)
        self.only = set(only) if only else None
        self.max_steps = max_steps
        self.max_rows = max_rows
        self.n_tables = n_tables
        self.index_kinds = index_kinds
        self.need_pandas_ok = need_pandas_ok
        self.final = final
        self.siblings = siblings  # percent of steps that are sibling variants

    def op_weight(self, name):
        if name in self.exclude:
            return 0
        if self.only is not None and name not in self.only:
            return 0
        return self.weights.get(name, O.OPS[name].weight)


def _kind_ok(want, val):
    if want == "any":
        return True
    return O.kind_of(val) == want


@st.composite
def programs(draw, profile):
    nt = draw(st.integers(*profile.n_tables))
    tables = []
    pvals = {}
    flags = {}
    for i in range(nt):
        spec = T.st_table(draw, name=f"t{i}", max_rows=profile.max_rows, index_kinds=profile.index_kinds)
        tables.append(spec)
        pvals[spec["name"]] = T.build_pandas(spec)
        flags[spec["name"]] = O.Flags(rowset=spec["name"], srcs=(spec["name"],))
    steps = []
    nsteps = draw(st.integers(1, profile.max_steps))
    names = [n for n in O.OPS if profile.op_weight(n) > 0]
    # weighted choice via a cumulative table (integers shrink towards index 0 = 'cols')
    cum = []
    tot = 0
    for n in names:
        tot += max(1, int(profile.op_weight(n) * 10))
        cum.append(tot)
    attempts = 0
    while len(steps) < nsteps and attempts < nsteps * 4:
        attempts += 1
        # sibling variant: repeat an earlier step on the same inputs with re-drawn arguments
        # (two expressions of one class over one input that differ in a parameter)
        if steps and profile.siblings and draw(st.integers(0, 99)) < profile.siblings:
            base = steps[draw(st.integers(0, len(steps) - 1))]
            op = O.OPS[base["op"]]
            ins = [(pvals[i], flags[i]) for i in base["in"]]
            args = op.gen(draw, ins)
            if args is None or args == base["args"]:
                continue
            sid = f"v{len(steps) + 1}"
            try:
                out = op.apply("pandas", [pvals[i] for i in base["in"]], args)
                fl = op.flags(ins, args, out)
            except Exception:
                continue
            if O.kind_of(out) in ("frame", "series") and _has_dup_labels(out):
                continue
            pvals[sid] = out
            flags[sid] = merge_flags(fl, [f for _, f in ins], sid)
            steps.append({"id": sid, "op": base["op"], "in": list(base["in"]), "args": args})
            if not flags[sid].defined:
                break
            continue
        r = draw(st.integers(0, tot - 1))
        opname = next(n for n, c in zip(names, cum) if r < c)
        op = O.OPS[opname]
        ids = list(pvals)
        if profile.need_pandas_ok:
            ids = [i for i in ids if flags[i].pandas_ok]
        # choose inputs: prefer recent values
        ins_ids = []
        ok = True
        for pos in range(op.arity):
            want = op.in_kinds[pos] if op.in_kinds and len(op.in_kinds) == op.arity else None
            if op.arity == 1 and op.in_kinds:
                cands = [i for i in ids if O.kind_of(pvals[i]) in op.in_kinds]
            elif want:
                cands = [i for i in ids if _kind_ok(want, pvals[i])]
            else:
                cands = ids
            if pos > 0 and "aligned" in op.tags:
                rs = flags[ins_ids[0]].rowset
                cands = [i for i in cands if flags[i].rowset == rs]
            if not cands:
                ok = False
                break
            # index from the end so that shrinking towards 0 picks the latest value
            j = draw(st.integers(0, len(cands) - 1))
            ins_ids.append(cands[len(cands) - 1 - j])
        if not ok:
            continue
        ins = [(pvals[i], flags[i]) for i in ins_ids]
        args = op.gen(draw, ins)
        if args is None:
            continue
        sid = f"v{len(steps) + 1}"
        try:
            out = op.apply("pandas", [pvals[i] for i in ins_ids], args)
            fl = op.flags(ins, args, out)
        except Exception:
            continue
        if O.kind_of(out) in ("frame", "series") and _has_dup_labels(out):
            continue
        pvals[sid] = out
        flags[sid] = merge_flags(fl, [f for _, f in ins], sid)
        steps.append({"id": sid, "op": opname, "in": ins_ids, "args": args})
        if not flags[sid].defined:
            break  # several results are valid from here on: must be the final step
    if not steps:
        out_id = tables[0]["name"]
    else:
        out_id = steps[-1]["id"]
    prog = {"tables": tables, "steps": steps, "out": [out_id]}
    return prog


def _has_dup_labels(x):
    import pandas as pd

    if isinstance(x, pd.DataFrame):
        return x.columns.has_duplicates
    return False
