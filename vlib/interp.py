"""Two interpreters for programs-as-data (DESIGN §2.1, §2.4)."""
import hashlib
import json
from dataclasses import replace

from . import ops as O
from . import tables as T


def canon(obj):
    return json.dumps(obj, sort_keys=True, separators=(",", ":"), default=str)


def case_hash(obj):
    return hashlib.sha1(canon(obj).encode()).hexdigest()[:16]


class Env:
    """Incrementally evaluated program on one side."""

    def __init__(self, side):
        self.side = side
        self.vals = {}

    def add_table(self, spec, pdf=None):
        pdf = pdf if pdf is not None else T.build_pandas(spec)
        if self.side == "pandas":
            self.vals[spec["name"]] = pdf
        else:
            self.vals[spec["name"]] = T.build_dask(spec, pdf)
        return self.vals[spec["name"]]

    def step(self, st):
        op = O.OPS[st["op"]]
        objs = [self.vals[i] for i in st["in"]]
        self.vals[st["id"]] = op.apply(self.side, objs, st.get("args", {}))
        return self.vals[st["id"]]


def run_pandas(program, upto=None):
    env = Env("pandas")
    for t in program["tables"]:
        env.add_table(t)
    for st in program["steps"]:
        env.step(st)
        if upto is not None and st["id"] == upto:
            break
    return env.vals


def run_dask(program, upto=None):
    env = Env("dask")
    for t in program["tables"]:
        env.add_table(t)
    for st in program["steps"]:
        env.step(st)
        if upto is not None and st["id"] == upto:
            break
    return env.vals


def static_flags(program, pvals=None):
    """Recompute the Flags of every value from the program (deterministic
    function of the program, needs the pandas values for tie information)."""
    pvals = pvals if pvals is not None else run_pandas(program)
    flags = {}
    for t in program["tables"]:
        flags[t["name"]] = O.Flags(rowset=t["name"], srcs=(t["name"],))
    for st in program["steps"]:
        op = O.OPS[st["op"]]
        ins = [(pvals[i], flags[i]) for i in st["in"]]
        fl = op.flags(ins, st.get("args", {}), pvals.get(st["id"]))
        flags[st["id"]] = merge_flags(fl, [f for _, f in ins], st["id"])
    return flags


def merge_flags(fl, in_flags, step_id):
    pandas_ok = fl.pandas_ok and all(f.pandas_ok for f in in_flags)
    ordered = fl.ordered
    indexed = fl.indexed
    srcs = tuple(sorted(set(fl.srcs).union(*[set(f.srcs) for f in in_flags])))
    rowset = fl.rowset or step_id
    layout = fl.layout  # ops decide (they may reset it: head/reductions yield one partition)
    defined = fl.defined and all(f.defined for f in in_flags)
    return replace(fl, pandas_ok=pandas_ok, ordered=ordered, indexed=indexed, srcs=srcs, rowset=rowset, layout=layout, defined=defined)


def op_histogram(program):
    h = {}
    for st in program["steps"]:
        h[st["op"]] = h.get(st["op"], 0) + 1
    return h


def live_steps(program):
    """ids of steps that the outputs depend on"""
    need = set(program["out"])
    for st in reversed(program["steps"]):
        if st["id"] in need:
            need.update(st["in"])
    return need


def prune(program):
    need = live_steps(program)
    p = dict(program)
    p["steps"] = [s for s in program["steps"] if s["id"] in need]
    p["tables"] = [t for t in program["tables"] if t["name"] in need]
    return p


def describe(program):
    """one-line human readable form for evidence samples"""
    parts = []
    for t in program["tables"]:
        lay = t.get("layout", {})
        parts.append(f"{t['name']}[{len(t['rows'])}r,{lay.get('kind')}:{lay.get('npartitions', lay.get('cuts'))}{'K' if lay.get('known') else ''}]")
    for s in program["steps"]:
        parts.append(f"{s['id']}={s['op']}({','.join(s['in'])};{canon(s.get('args', {}))})")
    return " ; ".join(parts) + " -> " + ",".join(program["out"])
