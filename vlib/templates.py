"""Systematic (deterministic) case catalogues."""


def c01_cases(tier):
    return []
