"""Systematic (deterministic) case catalogues: rule-trigger templates x
layouts (DESIGN §3 C01 'rule-trigger table')."""
import copy

# ----------------------------------------------------------------- fixed tables

COLS = [["k", "int"], ["f", "float"], ["g", "float"], ["s", "str"], ["i", "int"], ["b", "bool"], ["rid", "int"], ["m", "int"]]  # m: sorted with a long run of duplicates
ROWS_A = [
    [1, 0.5, 3.0, "a", 0, True, 0, 0],
    [2, None, 1.0, "b", 1, False, 1, 0],
    [1, 1.5, None, None, 2, True, 2, 1],
    [3, -1.0, 2.5, "a", 3, False, 3, 1],
    [2, 2.0, -2.0, "c", 4, True, 4, 1],
    [0, None, 0.5, "b", 5, True, 5, 1],
    [3, 3.0, 4.0, "dd", 6, False, 6, 2],
    [1, -0.5, -1.5, "a", 7, True, 7, 3],
]
ROWS_B = [
    [1, 1.0, 0.0, "a", 10, True, 0, 0],
    [1, 2.5, 1.0, "c", 11, False, 1, 1],
    [4, None, 2.0, "b", 12, True, 2, 1],
    [2, 0.5, None, None, 13, False, 3, 2],
    [0, -2.0, 3.5, "a", 14, True, 4, 2],
]


COLS_C = [["k", "int"], ["q", "float"], ["r2", "int"]]
ROWS_C = [[1, 1.0, 0], [1, -2.0, 1], [2, None, 2], [4, 0.5, 3], [5, 3.0, 4], [0, -1.0, 5]]


def table_c(layout=None):
    return {"name": "t2", "columns": copy.deepcopy(COLS_C), "rows": copy.deepcopy(ROWS_C), "index": {"kind": "range", "name": None},
            "layout": layout or {"kind": "from_pandas", "npartitions": 2, "sort": True}}


def table(name, rows, index=None, layout=None):
    return {"name": name, "columns": copy.deepcopy(COLS), "rows": copy.deepcopy(rows), "index": index or {"kind": "range", "name": None},
            "layout": layout or {"kind": "from_pandas", "npartitions": 3, "sort": True}}


LAYOUTS_A = [
    {"kind": "from_pandas", "npartitions": 1, "sort": True},
    {"kind": "from_pandas", "npartitions": 3, "sort": True},
    {"kind": "from_map", "cuts": [3, 0, 4, 1]},
    {"kind": "from_map", "cuts": [2, 3, 3], "known": True},
    {"kind": "from_delayed", "cuts": [1, 5, 2]},
    {"kind": "divisions", "cuts": [4, 2, 2], "known": True},
    {"kind": "concat", "cuts": [5, 3]},
]
INDEXES_A = [
    {"kind": "range", "name": None},
    {"kind": "int", "name": "idx", "values": [0, 0, 1, 2, 2, 3, 5, 5]},
]


def S(_sid, _op, _ins, **args):
    return {"id": _sid, "op": _op, "in": list(_ins), "args": args}


def P(cmp, col, val):
    return {"col": col, "cmp": cmp, "val": val}


# Each template: (name, steps, out)   inputs are "A" (8 rows) and "B" (5 rows)
def _templates():
    T = []

    def add(name, steps, out=None, tags=()):
        T.append({"name": name, "steps": steps, "out": out or steps[-1]["id"], "tags": tags})

    # --- projection rules
    add("proj-proj", [S("v1", "cols", ["A"], cols=["k", "f", "g", "rid"]), S("v2", "cols", ["v1"], cols=["g", "k"])])
    add("proj-assign-unused", [S("v1", "assign", ["A"], items=[["z", {"a": "f", "op": "add", "c": 1}], ["y", {"const": 2}]]), S("v2", "cols", ["v1"], cols=["k", "y"])])
    add("assign-chain-reuse", [S("v1", "assign", ["A"], items=[["z", {"a": "f", "op": "mul", "c": 2}]]), S("v2", "assign", ["v1"], items=[["w", {"a": "z", "op": "add", "b": "g"}]]), S("v3", "cols", ["v2"], cols=["w", "rid"])])
    add("assign-overwrite", [S("v1", "assign", ["A"], items=[["f", {"a": "f", "op": "add", "c": 1}]]), S("v2", "assign", ["v1"], items=[["f", {"a": "f", "op": "mul", "c": 3}]]), S("v3", "col", ["v2"], col="f")])
    add("rename-proj", [S("v1", "rename", ["A"], map={"f": "f_r", "k": "zz"}), S("v2", "cols", ["v1"], cols=["zz", "f_r"])])
    add("affix-proj", [S("v1", "add_affix", ["A"], how="suffix", s="_x"), S("v2", "cols", ["v1"], cols=["g_x", "k_x"])])
    add("drop-proj", [S("v1", "drop", ["A"], cols=["s", "b"]), S("v2", "col", ["v1"], col="g")])
    add("astype-fillna-proj", [S("v1", "astype", ["A"], to={"i": "float64"}), S("v2", "fillna", ["v1"], value={"f": 0.0}), S("v3", "cols", ["v2"], cols=["i", "f"])])
    add("to_frame-proj", [S("v1", "col", ["A"], col="f"), S("v2", "to_frame", ["v1"], name="tf"), S("v3", "col", ["v2"], col="tf")])
    add("reset_index-proj", [S("v1", "reset_index", ["A"], drop=False), S("v2", "cols", ["v1"], cols=["k", "f"])])
    add("mul-const-fold", [S("v1", "col", ["A"], col="f"), S("v2", "binop_scalar", ["v1"], op="mul", c=3, r=True), S("v3", "binop_scalar", ["v2"], op="mul", c=2, r=False)])
    add("shared-two-consumers", [S("v1", "assign", ["A"], items=[["z", {"a": "f", "op": "add", "b": "g"}]]), S("v2", "col", ["v1"], col="z"), S("v3", "col", ["v1"], col="k"), S("v4", "binop", ["v2", "v3"], op="add")])
    add("reduction-reuse", [S("v1", "col", ["A"], col="f"), S("v2", "series_red_reuse", ["v1"], op="sub", red="mean")])
    add("filter-by-reduction", [S("v1", "filter_pred", ["A"], pred={"col": "f", "cmp": "gt", "red": "mean"}), S("v2", "cols", ["v1"], cols=["k", "rid"])])
    add("reduce-sum-frame", [S("v1", "cols", ["A"], cols=["f", "g", "i"]), S("v2", "reduce", ["v1"], how="sum", split_every=2)])
    add("reduce-of-projection", [S("v1", "assign", ["A"], items=[["z", {"a": "f", "op": "add", "c": 1}]]), S("v2", "col", ["v1"], col="g"), S("v3", "reduce", ["v2"], how="max", split_every=None)])
    add("nunique-size", [S("v1", "col", ["A"], col="k"), S("v2", "reduce", ["v1"], how="nunique", split_every=None)])
    add("value_counts", [S("v1", "col", ["A"], col="s"), S("v2", "value_counts", ["v1"], split_out=2)])
    add("unique", [S("v1", "col", ["A"], col="k"), S("v2", "unique", ["v1"])])
    add("drop_duplicates-proj", [S("v1", "cols", ["A"], cols=["k", "s", "b"]), S("v2", "drop_duplicates", ["v1"], split_out=1), S("v3", "cols", ["v2"], cols=["k"])])
    # --- filter rules
    add("filter-proj", [S("v1", "filter_pred", ["A"], pred=P("gt", "f", 0)), S("v2", "cols", ["v1"], cols=["k", "rid"])])
    add("filter-filter", [S("v1", "filter_pred", ["A"], pred=P("gt", "f", -1)), S("v2", "filter_pred", ["v1"], pred=P("ne", "k", 2)), S("v3", "filter_pred", ["v2"], pred={"col": "s", "f": "notnull"})])
    add("filter-or-factoring", [S("v1", "filter_pred", ["A"], pred={"or": [{"and": [P("gt", "f", 0), P("eq", "k", 1)]}, {"and": [P("gt", "f", 0), P("lt", "g", 2)]}]})])
    add("filter-or3-partial-common", [S("v1", "filter_pred", ["A"], pred={"or": [{"or": [{"and": [P("gt", "f", 0), P("eq", "k", 1)]}, {"and": [P("gt", "f", 0), P("lt", "g", 2)]}]}, P("ge", "i", 5)]})])
    add("filter-or3-first-in-some", [S("v1", "filter_pred", ["A"], pred={"or": [{"or": [{"and": [P("eq", "k", 1), P("gt", "f", 0)]}, P("ge", "i", 6)]}, {"and": [P("gt", "f", 0), P("lt", "g", 2)]}]}), S("v2", "cols", ["v1"], cols=["rid", "k"])])
    add("filter-or-subsumed", [S("v1", "filter_pred", ["A"], pred={"or": [P("gt", "f", 0), {"and": [P("gt", "f", 0), P("eq", "k", 1)]}]})])
    add("filter-and-split", [S("v1", "assign", ["A"], items=[["z", {"a": "f", "op": "add", "c": 1}]]), S("v2", "filter_pred", ["v1"], pred={"and": [P("gt", "z", 0), P("le", "k", 2)]})])
    add("filter-after-assign", [S("v1", "assign", ["A"], items=[["z", {"a": "f", "op": "mul", "c": 2}]]), S("v2", "filter_pred", ["v1"], pred=P("gt", "g", 0)), S("v3", "cols", ["v2"], cols=["z", "rid"])])
    add("filter-after-rename", [S("v1", "rename", ["A"], map={"f": "f_r"}), S("v2", "filter_pred", ["v1"], pred=P("gt", "f_r", 0))])
    add("filter-after-reset_index", [S("v1", "reset_index", ["A"], drop=True), S("v2", "filter_pred", ["v1"], pred=P("ge", "g", 1))])
    add("filter-after-sort", [S("v1", "sort_values", ["A"], by=["rid"], ascending=False, na_position="last"), S("v2", "filter_pred", ["v1"], pred=P("gt", "f", 0))])
    add("filter-after-shuffle", [S("v1", "shuffle", ["A"], on="k", npartitions=2), S("v2", "filter_pred", ["v1"], pred=P("gt", "f", 0))])
    add("filter-after-repartition", [S("v1", "repartition", ["A"], npartitions=2), S("v2", "filter_pred", ["v1"], pred=P("gt", "f", 0))])
    add("filter-after-set_index", [S("v1", "set_index", ["A"], col="rid", drop=True), S("v2", "filter_pred", ["v1"], pred=P("gt", "f", 0))])
    add("filter-shared-frame", [S("v1", "assign", ["A"], items=[["z", {"a": "f", "op": "add", "c": 1}]]), S("v2", "filter_pred", ["v1"], pred=P("gt", "z", 1)), S("v3", "col", ["v1"], col="z"), S("v4", "reduce", ["v3"], how="sum", split_every=None), S("v5", "col", ["v2"], col="g"), S("v6", "binop_scalar", ["v5"], op="add", c=1, r=False)], out="v6")
    add("filter-series-mask", [S("v1", "col", ["A"], col="f"), S("v2", "binop_scalar", ["v1"], op="gt", c=0, r=False), S("v3", "filter", ["A", "v2"]), S("v4", "cols", ["v3"], cols=["k", "f"])])
    add("dropna-proj", [S("v1", "dropna", ["A"], subset=["f"]), S("v2", "cols", ["v1"], cols=["g", "rid"])])
    add("isin-filter", [S("v1", "filter_pred", ["A"], pred={"col": "k", "isin": [1, 3]}), S("v2", "col", ["v1"], col="s")])
    # --- joins
    for how in ("inner", "left", "right", "outer"):
        add(f"merge-{how}-proj", [S("v1", "merge", ["A", "B"], on=["k"], how=how, suffixes=None, broadcast=None, shuffle_method=None), S("v2", "cols", ["v1"], cols=["k", "f_x", "g_y"])])
        add(f"merge-{how}-filter-left", [S("v1", "merge", ["A", "B"], on=["k"], how=how, suffixes=None, broadcast=None, shuffle_method=None), S("v2", "filter_pred", ["v1"], pred=P("gt", "i_x", 2))])
        add(f"merge-{how}-filter-right", [S("v1", "merge", ["A", "B"], on=["k"], how=how, suffixes=None, broadcast=None, shuffle_method=None), S("v2", "filter_pred", ["v1"], pred=P("gt", "i_y", 11))])
        add(f"merge-{how}-filter-key", [S("v1", "merge", ["A", "B"], on=["k"], how=how, suffixes=None, broadcast=None, shuffle_method=None), S("v2", "filter_pred", ["v1"], pred=P("ge", "k", 1))])
    for how in ("inner", "left", "right", "outer"):
        # conjunctions whose conjuncts can / cannot be moved into one input, in both orders
        add(f"merge-{how}-filter-and-right-then-left", [S("v1", "merge", ["A", "B"], on=["k"], how=how, suffixes=None, broadcast=None, shuffle_method=None),
                                                       S("v2", "filter_pred", ["v1"], pred={"and": [P("lt", "i_y", 13), P("gt", "i_x", 1)]})])
        add(f"merge-{how}-filter-and-left-then-right", [S("v1", "merge", ["A", "B"], on=["k"], how=how, suffixes=None, broadcast=None, shuffle_method=None),
                                                       S("v2", "filter_pred", ["v1"], pred={"and": [P("gt", "i_x", 1), P("lt", "i_y", 13)]})])
        add(f"merge-{how}-filter-and-cross-side", [S("v1", "merge", ["A", "B"], on=["k"], how=how, suffixes=None, broadcast=None, shuffle_method=None),
                                                  S("v2", "filter_pred", ["v1"], pred={"and": [{"col": "g_x", "cmp": "gt", "col2": "g_y"}, P("gt", "i_x", 1)]})])
        add(f"merge-{how}-filter-or-sides", [S("v1", "merge", ["A", "B"], on=["k"], how=how, suffixes=None, broadcast=None, shuffle_method=None),
                                            S("v2", "filter_pred", ["v1"], pred={"or": [P("lt", "i_y", 12), P("gt", "i_x", 4)]})])
    for how in ("inner", "left", "right", "outer"):
        # C has columns of its own (q, r2): un-suffixed right-only columns, the filter can really move
        mc = lambda: S("v1", "merge", ["A", "C"], on=["k"], how=how, suffixes=None, broadcast=None, shuffle_method=None)
        add(f"mergeC-{how}-filter-right-then-left", [mc(), S("v2", "filter_pred", ["v1"], pred={"and": [P("lt", "q", 2), P("gt", "i", 1)]})])
        add(f"mergeC-{how}-filter-left-then-right", [mc(), S("v2", "filter_pred", ["v1"], pred={"and": [P("gt", "i", 1), P("lt", "q", 2)]})])
        add(f"mergeC-{how}-filter-cross-side", [mc(), S("v2", "filter_pred", ["v1"], pred={"and": [{"col": "g", "cmp": "gt", "col2": "q"}, P("gt", "i", 1)]})])
        add(f"mergeC-{how}-filter-or", [mc(), S("v2", "filter_pred", ["v1"], pred={"or": [P("lt", "q", 0), P("gt", "i", 4)]}), S("v3", "cols", ["v2"], cols=["rid", "r2"])])
        add(f"mergeC-{how}-filter-right-proj", [mc(), S("v2", "filter_pred", ["v1"], pred=P("gt", "q", 0)), S("v3", "cols", ["v2"], cols=["f", "q"])])
        add(f"mergeC-{how}-filter-key-isna", [mc(), S("v2", "filter_pred", ["v1"], pred={"or": [{"col": "q", "f": "isna"}, P("ge", "k", 2)]})])
    add("merge-both-suffixed", [S("v1", "merge", ["A", "B"], on=["k"], how="inner", suffixes=None, broadcast=None, shuffle_method=None), S("v2", "cols", ["v1"], cols=["f_x", "f_y"])])
    add("merge-suffix-empty", [S("v1", "merge", ["A", "B"], on=["k"], how="left", suffixes=["", "_r"], broadcast=None, shuffle_method=None), S("v2", "filter_pred", ["v1"], pred=P("gt", "f", 0)), S("v3", "cols", ["v2"], cols=["f", "f_r", "k"])])
    for how in ("left", "right"):
        add(f"merge-{how}-suffix-empty-right", [S("v1", "merge", ["A", "B"], on=["k"], how=how, suffixes=["_l", ""], broadcast=None, shuffle_method=None), S("v2", "filter_pred", ["v1"], pred=P("gt", "f", 0)), S("v3", "cols", ["v2"], cols=["f", "f_l", "k"])])
    for how in ("inner", "left", "right"):
        add(f"merge-lr-indicator-broadcast-{how}", [S("v1", "merge_lr", ["A", "B"], left_on="k", right_on="m", how=how, indicator=True, broadcast=True, shuffle_method="tasks"),
                                                     S("v2", "cols", ["v1"], cols=["_merge", "rid_p"])])
    add("merge-lr-indicator-named-hash", [S("v1", "merge_lr", ["A", "B"], left_on="k", right_on="k", how="outer", indicator="side", broadcast=False, shuffle_method="tasks"),
                                          S("v2", "filter_pred", ["v1"], pred=P("ge", "rid_p", 0))])
    # D63: suffixed *key* columns (left_on != right_on, both names on both sides)
    add("merge-lr-suffixed-keys", [S("v0", "cols", ["A"], cols=["k", "i", "rid"]), S("v1", "merge_lr", ["v0", "v0"], left_on="i", right_on="k", how="right", indicator=False, broadcast=None, shuffle_method=None),
                                   S("v2", "cols", ["v1"], cols=["i_p", "k_q"])])
    add("merge-lr-suffixed-right-key", [S("v0", "cols", ["A"], cols=["k", "i", "rid"]), S("v1", "merge_lr", ["v0", "v0"], left_on="i", right_on="k", how="inner", indicator=False, broadcast=None, shuffle_method="tasks"),
                                        S("v2", "cols", ["v1"], cols=["k_q", "rid_p"])])
    add("merge-broadcast", [S("v1", "merge", ["A", "B"], on=["k"], how="inner", suffixes=None, broadcast=True, shuffle_method=None), S("v2", "cols", ["v1"], cols=["k", "rid_x", "rid_y"])])
    add("merge-tasks-two-keys", [S("v1", "merge", ["A", "B"], on=["k", "s"], how="outer", suffixes=None, broadcast=False, shuffle_method="tasks")])
    add("merge-self", [S("v1", "cols", ["A"], cols=["k", "f", "rid"]), S("v2", "merge", ["v1", "v1"], on=["k"], how="inner", suffixes=None, broadcast=None, shuffle_method=None), S("v3", "cols", ["v2"], cols=["f_x", "rid_y"])])
    # D60: continue on an optimized plan whose fused groups share a source with an unfused branch
    add("merge-tasks-filtered-sibling-reproj", [S("v1", "filter_pred", ["A"], pred=P("ge", "rid", 3)),
        S("v2", "merge", ["A", "v1"], on=["s", "i"], how="left", suffixes=None, broadcast=False, shuffle_method="tasks"),
        S("v3", "cols", ["v2"], cols=["k_x"]), S("v4", "cols", ["v3"], cols=["k_x"])])
    add("merge-then-groupby", [S("v1", "merge", ["A", "B"], on=["k"], how="inner", suffixes=None, broadcast=None, shuffle_method=None), S("v2", "groupby_agg", ["v1"], by=["k"], col="f_x", how="sum", split_out=1, sort=None)])
    add("merge-index", [S("v1", "cols", ["A"], cols=["f", "k"]), S("v2", "cols", ["A"], cols=["g", "rid"]), S("v3", "merge_index", ["v1", "v2"], how="inner"), S("v4", "cols", ["v3"], cols=["f", "rid"])])
    add("concat0-proj", [S("v1", "concat0", ["A", "B"]), S("v2", "cols", ["v1"], cols=["k", "f"])])
    add("concat0-filter", [S("v1", "concat0", ["A", "B"]), S("v2", "filter_pred", ["v1"], pred=P("gt", "f", 0))])
    add("concat1", [S("v1", "cols", ["A"], cols=["f"]), S("v2", "cols", ["A"], cols=["g", "k"]), S("v3", "concat1", ["v1", "v2"]), S("v4", "cols", ["v3"], cols=["g", "f"])])
    # --- groupby
    for how in ("sum", "mean", "count", "size", "min", "first", "var", "nunique"):
        add(f"groupby-{how}", [S("v1", "groupby_agg", ["A"], by=["k"], col="f", how=how, split_out=1, sort=None)])
    add("groupby-two-keys-tune", [S("v1", "groupby_agg", ["A"], by=["k", "s"], cols=["f", "g"], how="sum", split_out=1, sort=None)])
    add("groupby-split_out", [S("v1", "groupby_agg", ["A"], by=["k"], cols=["f", "i"], how="max", split_out=2, sort=None), S("v2", "col", ["v1"], col="i")])
    add("groupby-agg-dict-proj", [S("v1", "groupby_agg", ["A"], by=["s"], how="sum", agg={"f": "sum", "g": "mean"}, split_out=1, sort=None), S("v2", "col", ["v1"], col="g")])
    add("groupby2-series-reset_index-proj", [S("v1", "groupby_agg", ["A"], by=["k", "s"], col="f", how="sum", split_out=1, sort=None), S("v2", "reset_index", ["v1"], drop=False), S("v3", "col", ["v2"], col="k")])
    add("groupby-series-reset_index-proj", [S("v1", "groupby_agg", ["A"], by=["k"], col="f", how="count", split_out=1, sort=None), S("v2", "reset_index", ["v1"], drop=False), S("v3", "cols", ["v2"], cols=["f"])])
    add("groupby-frame-reset_index-proj", [S("v1", "groupby_agg", ["A"], by=["k", "s"], cols=["f", "g"], how="max", split_out=1, sort=None), S("v2", "reset_index", ["v1"], drop=False), S("v3", "cols", ["v2"], cols=["s", "g"])])
    add("groupby-after-filter", [S("v1", "filter_pred", ["A"], pred=P("gt", "g", 0)), S("v2", "groupby_agg", ["v1"], by=["k"], col="f", how="sum", split_out=1, sort=None)])
    add("groupby-after-shuffle", [S("v1", "shuffle", ["A"], on="k", npartitions=3), S("v2", "groupby_agg", ["v1"], by=["k"], col="g", how="count", split_out=1, sort=None)])
    # --- sort / set_index / head
    add("sort-head", [S("v1", "sort_values", ["A"], by=["rid"], ascending=False, na_position="last"), S("v2", "head", ["v1"], n=3, npartitions=1, how="head")])
    add("sort-tail", [S("v1", "sort_values", ["A"], by=["i"], ascending=True, na_position="last"), S("v2", "head", ["v1"], n=2, npartitions=1, how="tail")])
    add("sort-proj", [S("v1", "sort_values", ["A"], by=["i"], ascending=True, na_position="first"), S("v2", "cols", ["v1"], cols=["k", "f"])])
    add("sort-na-first", [S("v1", "sort_values", ["A"], by=["f", "rid"], ascending=True, na_position="first")])
    add("set_index-proj", [S("v1", "set_index", ["A"], col="i", drop=True), S("v2", "cols", ["v1"], cols=["f", "k"])])
    add("set_index-head", [S("v1", "set_index", ["A"], col="rid", drop=False), S("v2", "head", ["v1"], n=3, npartitions=1, how="head")])
    add("set_index-sorted", [S("v1", "set_index", ["A"], col="m", drop=True, sorted=True), S("v2", "cols", ["v1"], cols=["f", "k"])])
    add("set_index-assign", [S("v1", "set_index", ["A"], col="rid", drop=True), S("v2", "assign", ["v1"], items=[["y", {"const": 1}], ["z", {"a": "f", "op": "sub", "red": "max"}]])])
    add("shuffle-sum", [S("v1", "shuffle", ["A"], on="k", npartitions=2), S("v2", "col", ["v1"], col="f"), S("v3", "reduce", ["v2"], how="sum", split_every=None)])
    add("shuffle-proj", [S("v1", "shuffle", ["A"], on="s", npartitions=None), S("v2", "cols", ["v1"], cols=["f", "rid"])])
    add("nlargest-proj", [S("v1", "nlargest", ["A"], how="nlargest", n=3, col="i"), S("v2", "cols", ["v1"], cols=["k", "f"])])
    add("head-elemwise", [S("v1", "cols", ["A"], cols=["f", "g"]), S("v2", "binop_scalar", ["v1"], op="add", c=1, r=False), S("v3", "head", ["v2"], n=4, npartitions=2, how="head")])
    add("head-red-reuse", [S("v1", "col", ["A"], col="f"), S("v2", "series_red_reuse", ["v1"], op="add", red="sum"), S("v3", "head", ["v2"], n=3, npartitions=1, how="head")])
    add("tail-elemwise", [S("v1", "col", ["A"], col="g"), S("v2", "series_red_reuse", ["v1"], op="sub", red="max"), S("v3", "head", ["v2"], n=2, npartitions=1, how="tail")])
    add("head-head", [S("v1", "head", ["A"], n=6, npartitions=2, how="head"), S("v2", "head", ["v1"], n=5, npartitions=1, how="head")])
    add("isin-head", [S("v1", "col", ["A"], col="k"), S("v2", "isin", ["v1"], values=[1, 2]), S("v3", "head", ["v2"], n=3, npartitions=1, how="head")])
    add("partitions-elemwise", [S("v1", "binop_scalar", ["A[f,g]"], op="mul", c=2, r=False), S("v2", "partitions", ["v1"], sel=[1, 0])])
    # D64: on a one-partition frame the predicate operands count as broadcasts
    add("partitions-stacked-filters", [S("v1", "filter_pred", ["A"], pred=P("ne", "s", "b")), S("v2", "filter_pred", ["v1"], pred=P("le", "i", 5)), S("v3", "partitions", ["v2"], sel=[0, 0])], tags=("single",))
    add("partitions-filter-assign", [S("v1", "filter_pred", ["A"], pred=P("gt", "g", 0)), S("v2", "assign", ["v1"], items=[["z", {"a": "f", "op": "add", "b": "g"}]]), S("v3", "partitions", ["v2"], sel=[0])], tags=("single",))
    # D82: reductions that relabel their result (mode) on a frame whose labels are far from 0
    add("mode-after-set-index", [S("v1", "assign", ["A"], items=[["z", {"a": "rid", "op": "add", "c": 10}]]), S("v2", "set_index", ["v1"], col="z", drop=True), S("v3", "col", ["v2"], col="k"), S("v4", "mode", ["v3"])])
    add("value-counts-after-set-index", [S("v1", "assign", ["A"], items=[["z", {"a": "rid", "op": "add", "c": 10}]]), S("v2", "set_index", ["v1"], col="z", drop=True), S("v3", "col", ["v2"], col="k"), S("v4", "value_counts", ["v3"], split_out=1)])
    # D73: index / len of stacked filters (frame with repeating index labels: INDEXES_A[1])
    add("stacked-filters-index", [S("v1", "filter_pred", ["A"], pred=P("ne", "s", "b")), S("v2", "filter_pred", ["v1"], pred=P("le", "i", 5)), S("v3", "index_of", ["v2"])])
    add("stacked-filters-index-frame", [S("v1", "filter_pred", ["A"], pred=P("gt", "g", 0)), S("v2", "filter_pred", ["v1"], pred=P("ge", "k", 1)), S("v3", "index_to", ["v2"], how="to_frame")])
    # D72: operators that copy the divisions of a partition-selected source
    for name, step in (("cumframe", S("v2", "cum_frame", ["v1"], f="cumsum")), ("repartition-same", S("v2", "repartition", ["v1"], npartitions=2)), ("repartition-more", S("v2", "repartition", ["v1"], npartitions=3)),
                       ("shift", S("v2", "shift", ["v1"], f="shift", periods=1)), ("rolling", S("v2", "rolling", ["v1"], window=2, min_periods=1, center=False, how="sum")), ("head", S("v2", "head", ["v1"], n=2, npartitions=-1, how="head"))):
        add(f"partitions-then-{name}", [S("v0", "cols", ["A"], cols=["f", "i"]), S("v1", "partitions", ["v0"], sel=[2, 0]), step])
    add("partitions-then-merge-index", [S("v0", "cols", ["A"], cols=["f", "i"]), S("v1", "partitions", ["v0"], sel=[1, 2]), S("v2", "cols", ["A"], cols=["g", "rid"]), S("v3", "partitions", ["v2"], sel=[1, 2]), S("v4", "merge_index", ["v1", "v3"], how="inner")])
    add("partitions-then-broadcast-join", [S("v1", "partitions", ["A"], sel=[1, 2]), S("v2", "merge", ["v1", "B"], on=["k"], how="left", suffixes=None, broadcast=True, shuffle_method=None)])
    add("partitions-red-reuse", [S("v1", "col", ["A"], col="f"), S("v2", "series_red_reuse", ["v1"], op="sub", red="min"), S("v3", "partitions", ["v2"], sel=[2])])
    add("repartition-proj", [S("v1", "repartition", ["A"], npartitions=2), S("v2", "cols", ["v1"], cols=["f"])])
    add("map_partitions-proj", [S("v1", "map_partitions", ["A"], f="add_one_numeric"), S("v2", "cols", ["v1"], cols=["f", "k"])])
    # --- windows
    add("cumsum", [S("v1", "col", ["A"], col="f"), S("v2", "cum", ["v1"], f="cumsum")])
    add("cummax-int", [S("v1", "col", ["A"], col="i"), S("v2", "cum", ["v1"], f="cummax")])
    add("shift", [S("v1", "cols", ["A"], cols=["f", "i"]), S("v2", "shift", ["v1"], f="shift", periods=1)])
    add("diff-proj", [S("v1", "cols", ["A"], cols=["f", "g", "i"]), S("v2", "shift", ["v1"], f="diff", periods=1), S("v3", "col", ["v2"], col="g")])
    add("ffill", [S("v1", "cols", ["A"], cols=["f", "g"]), S("v2", "shift", ["v1"], f="ffill")])
    # --- loc / where / misc
    add("loc-slice-elemwise", [S("v1", "loc_slice", ["A"], lo=4, hi=None), S("v2", "cols", ["v1"], cols=["f", "g"]), S("v3", "binop_scalar", ["v2"], op="add", c=1, r=False)], tags=("loc",))
    add("loc-slice-cols-3parts", [S("v1", "loc_slice", ["A"], lo=1, hi=6, cols=["g", "k"]), S("v2", "col", ["v1"], col="g")], tags=("loc",))
    add("loc-list-unsorted", [S("v1", "loc_list", ["A"], labels=[5, 1, 3, 2]), S("v2", "cols", ["v1"], cols=["f", "rid"])], tags=("loc",))
    add("loc-list-desc-filter", [S("v1", "loc_list", ["A"], labels=[5, 3, 2, 0]), S("v2", "filter_pred", ["v1"], pred=P("ge", "i", 0))], tags=("loc",))
    add("loc-list-sorted-series", [S("v1", "col", ["A"], col="g"), S("v2", "loc_list", ["v1"], labels=[1, 2, 5])], tags=("loc",))
    add("loc-slice-reversed", [S("v1", "loc_slice", ["A"], lo=5, hi=2), S("v2", "cols", ["v1"], cols=["f", "k"])], tags=("loc",))
    add("loc-slice-col-scalar", [S("v1", "loc_slice", ["A"], lo=1, hi=None, cols="f")], tags=("loc",))
    add("nested-broadcast-chain", [S("v1", "col", ["A"], col="f"), S("v2", "col", ["A"], col="g"), S("v3", "col", ["A"], col="i"), S("v4", "reduce", ["v2"], how="sum", split_every=None),
                                   S("v5", "reduce", ["v3"], how="sum", split_every=None), S("v6", "scalar_arith", ["v4"], op="add", c=1, r=False), S("v7", "scalar_binop", ["v6", "v5"], op="add"),
                                   S("v8", "bcast_scalar", ["v1", "v7"], op="add", r=False)])
    add("broadcast-two-reductions", [S("v1", "col", ["A"], col="f"), S("v2", "reduce", ["v1"], how="max", split_every=None), S("v3", "col", ["A"], col="g"), S("v4", "reduce", ["v3"], how="min", split_every=None),
                                     S("v5", "bcast_scalar", ["v1", "v2"], op="sub", r=False), S("v6", "bcast_scalar", ["v5", "v4"], op="mul", r=True)])
    # --- third operator batch: projection / filter rules of the new expression classes
    add("query-proj", [S("v1", "query", ["A"], q="f > 0 and k < 3"), S("v2", "cols", ["v1"], cols=["g", "rid"])])
    add("query-after-assign", [S("v1", "assign", ["A"], items=[["z", {"a": "f", "op": "add", "b": "g"}]]), S("v2", "query", ["v1"], q="z > 1 or i == 5"), S("v3", "cols", ["v2"], cols=["z", "k"])])
    add("eval-proj-unused", [S("v1", "eval_assign", ["A"], e="ev = f * g + 1"), S("v2", "cols", ["v1"], cols=["k", "rid"])])
    add("eval-overwrite-filter", [S("v1", "eval_assign", ["A"], e="f = f + i + 1"), S("v2", "filter_pred", ["v1"], pred=P("gt", "f", 3)), S("v3", "cols", ["v2"], cols=["f", "rid"])])
    add("method-op-filter", [S("v1", "cols", ["A"], cols=["f", "g", "i"]), S("v2", "method_op", ["v1"], m="floordiv", c=2, form="method"), S("v3", "filter_pred", ["v2"], pred=P("ge", "i", 1)), S("v4", "col", ["v3"], col="g")])
    add("method-cmp-proj", [S("v1", "cols", ["A"], cols=["f", "g", "i"]), S("v2", "method_op", ["v1"], m="ge", c=2, form="method"), S("v3", "cols", ["v2"], cols=["i", "f"])])
    add("operator-pow-mod", [S("v1", "col", ["A"], col="i"), S("v2", "method_op", ["v1"], m="pow", c=2, form="operator"), S("v3", "method_op", ["v2"], m="mod", c=3, form="operator")])
    add("ufunc-proj", [S("v1", "cols", ["A"], cols=["f", "g", "i"]), S("v2", "ufunc", ["v1"], f="sign"), S("v3", "cols", ["v2"], cols=["g"])])
    add("row-reduce-filter", [S("v1", "filter_pred", ["A"], pred=P("gt", "g", 0)), S("v2", "row_reduce", ["v1"], cols=["f", "g", "i"], how="var")])
    add("rename-axis-filter-proj", [S("v1", "rename_axis", ["A"], name="ax"), S("v2", "filter_pred", ["v1"], pred=P("le", "i", 5)), S("v3", "cols", ["v2"], cols=["f", "k"])])
    add("set-columns-proj", [S("v0", "cols", ["A"], cols=["k", "f", "g", "i"]), S("v1", "set_columns", ["v0"], names=["c0", "c1", "c2", "c3"]), S("v2", "cols", ["v1"], cols=["c2", "c0"])])
    add("set-columns-filter", [S("v0", "cols", ["A"], cols=["k", "f", "g", "i"]), S("v1", "set_columns", ["v0"], names=["c0", "c1", "c2", "c3"]), S("v2", "filter_pred", ["v1"], pred=P("gt", "c1", 0)), S("v3", "col", ["v2"], col="c3")])
    add("apply-rows-after-proj", [S("v1", "apply_rows", ["A"], cols=["f", "g", "i"])])
    add("series-map-func-filter", [S("v1", "col", ["A"], col="i"), S("v2", "series_map_func", ["v1"]), S("v3", "binop_scalar", ["v2"], op="gt", c=3, r=False)])
    add("index-to-frame-proj", [S("v1", "filter_pred", ["A"], pred=P("gt", "f", 0)), S("v2", "index_to", ["v1"], how="to_frame")])
    add("case-when-chain", [S("v1", "col", ["A"], col="f"), S("v2", "case_when", ["v1"], c=0, v=9, cmp="gt"), S("v3", "binop_scalar", ["v2"], op="add", c=1, r=False)])
    add("sample-all-filter", [S("v1", "sample_all", ["A"]), S("v2", "filter_pred", ["v1"], pred=P("gt", "g", 0)), S("v3", "cols", ["v2"], cols=["g", "rid"])])
    add("explode-proj-filter", [S("v1", "explode", ["A"], col="s"), S("v2", "filter_pred", ["v1"], pred=P("ge", "k", 1)), S("v3", "cols", ["v2"], cols=["f", "s"])])
    add("explode-proj-without-col", [S("v1", "explode", ["A"], col="s"), S("v2", "cols", ["v1"], cols=["f", "k"])])
    add("frame-nunique-proj", [S("v1", "cols", ["A"], cols=["k", "s", "f"]), S("v2", "frame_nunique", ["v1"])])
    for how in ("median", "prod"):
        add(f"groupby-{how}-proj", [S("v1", "groupby_holistic", ["A"], by=["k"], cols=["f", "i"], how=how, series=False), S("v2", "col", ["v1"], col="i")])
        add(f"groupby-{how}-after-filter", [S("v1", "filter_pred", ["A"], pred=P("gt", "g", 0)), S("v2", "groupby_holistic", ["v1"], by=["s"], cols=["f"], how=how, series=True)])
    for how in ("cov", "corr"):
        add(f"groupby-{how}-complete", [S("v1", "groupby_holistic", ["A"], by=["k"], cols=["i", "m"], how=how, series=False)])
        add(f"groupby-{how}-filtered", [S("v1", "filter_pred", ["A"], pred=P("ge", "i", 2)), S("v2", "groupby_holistic", ["v1"], by=["k"], cols=["i", "rid"], how=how, series=False)])
    add("pivot-sum-proj", [S("v0", "dropna", ["A"], subset=["s"]), S("v1", "pivot_table", ["v0"], index="k", columns="s", values="i", aggfunc="sum"), S("v2", "cols", ["v1"], cols=["a", "b"])])
    add("pivot-mean-after-filter", [S("v0", "dropna", ["A"], subset=["s"]), S("v1", "filter_pred", ["v0"], pred=P("ge", "i", 1)), S("v2", "pivot_table", ["v1"], index="k", columns="s", values="rid", aggfunc="mean")])
    add("where-mask", [S("v1", "col", ["A"], col="f"), S("v2", "col", ["A"], col="b"), S("v3", "where", ["v1", "v2"], how="where", other=0)])
    add("str-accessor", [S("v1", "col", ["A"], col="s"), S("v2", "accessor", ["v1"], acc="str", f="upper")])
    add("index-of-filter", [S("v1", "filter_pred", ["A"], pred=P("gt", "f", 0)), S("v2", "index_of", ["v1"])])
    add("persist-proj", [S("v1", "assign", ["A"], items=[["z", {"a": "f", "op": "add", "c": 1}]]), S("v2", "cut", ["v1"], how="persist"), S("v3", "cols", ["v2"], cols=["z", "k"]), S("v4", "filter_pred", ["v3"], pred=P("gt", "z", 1))])
    add("delayed-partitions", [S("v1", "cut", ["A"], how="delayed"), S("v2", "binop_scalar", ["v1[f,g]"], op="add", c=1, r=False), S("v3", "partitions", ["v2"], sel=[1])])
    add("legacy-filter", [S("v1", "cut", ["A"], how="legacy"), S("v2", "filter_pred", ["v1"], pred=P("gt", "f", 0)), S("v3", "col", ["v2"], col="g")])
    return T


def _expand(t, layout_a, index_a, layout_b, shuffle):
    """instantiate a template into a program"""
    steps = []
    pre = []
    for s in copy.deepcopy(t["steps"]):
        ins = []
        for i in s["in"]:
            if "[" in i:  # "A[f,g]" shorthand: projection first
                base, cols = i[:-1].split("[")
                pid = f"p_{base}_{len(pre)}"
                pre.append(S(pid, "cols", ["t0" if base == "A" else "t1" if base == "B" else base], cols=cols.split(",")))
                ins.append(pid)
            else:
                ins.append({"A": "t0", "B": "t1", "C": "t2"}.get(i, i))
        s["in"] = ins
        steps.append(s)
    steps = _order(pre, steps)
    tables = [table("t0", ROWS_A, index=index_a, layout=layout_a)]
    if any("t1" in s["in"] for s in steps):
        # same index name on both inputs (pandas only keeps a name both inputs agree on)
        tables.append(table("t1", ROWS_B, index={"kind": "range", "name": index_a.get("name")}, layout=layout_b))
    if any("t2" in s["in"] for s in steps):
        tables.append(table_c(layout=[{"kind": "from_pandas", "npartitions": 2, "sort": True}, {"kind": "from_map", "cuts": [1, 0, 5]}][len(layout_a.get("cuts", [])) % 2]))
    return {"tables": tables, "steps": steps, "out": [t["out"]], "config": {"shuffle": shuffle}, "template": t["name"]}


def _order(pre, steps):
    """insert helper projections right before their first use"""
    out = []
    pending = {p["id"]: p for p in pre}
    defined = set()
    for s in steps:
        for i in s["in"]:
            if i in pending:
                # its own inputs must be defined already (they are tables or earlier steps)
                out.append(pending.pop(i))
        out.append(s)
        defined.add(s["id"])
    return out


def c01_cases(tier):
    cases = []
    ts = _templates()
    lays = LAYOUTS_A if tier == "thorough" else LAYOUTS_A[1:6]
    for ti, t in enumerate(ts):
        tlays = lays if (tier == "thorough" or "single" not in t["tags"]) else [LAYOUTS_A[0]] + lays
        for li, la in enumerate(tlays):
            idxs = INDEXES_A if (tier == "thorough" or (ti + li) % 3 == 0) else INDEXES_A[:1]
            for ia in idxs:
                if la.get("known") and ia["kind"] == "int":
                    # cuts must not split runs of equal index values: [0,0,1,2,2,3,5,5]
                    la2 = dict(la, cuts=[2, 3, 3]) if la["cuts"] != [2, 3, 3] else la
                    if la["kind"] == "divisions":
                        la2 = dict(la, cuts=[3, 2, 3])
                else:
                    la2 = la
                lb = [{"kind": "from_pandas", "npartitions": 2, "sort": True}, {"kind": "from_map", "cuts": [2, 0, 3]}][(ti + li) % 2]
                shuffles = ["tasks", "disk"] if tier == "thorough" else [["tasks", "disk"][(ti + li) % 2]]
                for sh in shuffles:
                    cases.append(_expand(t, la2, ia, lb, sh))
    return cases


_MATRIX = {}


def matrix_cases(tier):
    """every rule-trigger template followed by each operator that the optimizer pushes towards the source
    (column selection, single column, filter, head, partition selection, index) - the systematic template x pushdown matrix"""
    if tier in _MATRIX:
        return _MATRIX[tier]
    import pandas as pd
    from . import interp, ops

    cases = []
    lays = LAYOUTS_A if tier == "thorough" else LAYOUTS_A[1:6]
    for ti, t in enumerate(_templates()):
        base = _expand(t, LAYOUTS_A[1], INDEXES_A[0], {"kind": "from_pandas", "npartitions": 2, "sort": True}, "tasks")
        try:
            pv = interp.run_pandas(base)
            fl = interp.static_flags(base, pv)
        except Exception:
            continue
        out = t["out"]
        x, f = pv[out], fl[out]
        if not f.defined:
            continue  # several results satisfy the template (partial head of an algorithm-partitioned frame): nothing may follow
        pushes = []
        if isinstance(x, pd.DataFrame) and len(x.columns) >= 2 and all(isinstance(c, str) for c in x.columns):
            cs = list(x.columns)
            pushes.append(S("m1", "cols", [out], cols=[cs[-1], cs[0]]))
            pushes.append(S("m1", "col", [out], col=cs[len(cs) // 2]))
            num = [c for c in cs if ops.col_kind(x[c].dtype) in ("int", "float")]
            if num:
                pushes.append(S("m1", "filter_pred", [out], pred=P("ge", num[-1], 1)))
        if isinstance(x, (pd.DataFrame, pd.Series)):
            if f.ordered and f.defined:
                pushes.append(S("m1", "head", [out], n=3, npartitions=-1, how="head"))
            if f.layout:
                pushes.append(S("m1", "partitions", [out], sel=[2, 0]))
            if f.indexed:
                pushes.append(S("m1", "index_of", [out]))
        for pi, push in enumerate(pushes):
            tt = {"name": t["name"] + "+" + push["op"], "steps": list(t["steps"]) + [push], "out": "m1", "tags": t["tags"]}
            for li, la in enumerate(lays if tier == "thorough" else [lays[(ti + pi) % len(lays)]]):
                cases.append(_expand(tt, la, INDEXES_A[0], {"kind": "from_map", "cuts": [2, 0, 3]}, ["tasks", "disk"][(ti + pi + li) % 2]))
    _MATRIX[tier] = cases
    return cases


# ----------------------------------------------------------------- sibling variants (C08/C09)

SIBLINGS = [
    ("repartition", {"npartitions": 5}, {"npartitions": 6}),
    ("repartition", {"npartitions": 7}, {"npartitions": 9}),
    ("repartition", {"npartitions": 1}, {"npartitions": 2}),
    ("shuffle", {"on": "k", "npartitions": 2}, {"on": "k", "npartitions": 3}),
    ("shuffle", {"on": "k", "npartitions": 3, "shuffle_method": "tasks", "max_branch": 2, "ignore_index": False}, {"on": "k", "npartitions": 3, "shuffle_method": "tasks", "max_branch": 2, "ignore_index": True}),
    ("shuffle", {"on": "k", "npartitions": 4, "shuffle_method": "tasks", "max_branch": 2, "ignore_index": False}, {"on": "k", "npartitions": 4, "shuffle_method": "tasks", "max_branch": 3, "ignore_index": False}),
    ("shuffle", {"on": "k", "npartitions": 4, "shuffle_method": "tasks", "max_branch": 2, "ignore_index": False}, {"on": "s", "npartitions": 4, "shuffle_method": "tasks", "max_branch": 2, "ignore_index": False}),
    ("shuffle", {"on": "k", "npartitions": 2}, {"on": "s", "npartitions": 2}),
    ("sort_values", {"by": ["f"], "ascending": True, "na_position": "last"}, {"by": ["f"], "ascending": False, "na_position": "last"}),
    ("sort_values", {"by": ["i"], "ascending": True, "na_position": "last"}, {"by": ["i"], "ascending": True, "na_position": "first"}),
    ("set_index", {"col": "i", "drop": True}, {"col": "i", "drop": False}),
    ("set_index", {"col": "i", "drop": True}, {"col": "rid", "drop": True}),
    ("groupby_agg", {"by": ["k"], "col": "f", "how": "sum", "split_out": 1, "sort": None}, {"by": ["k"], "col": "f", "how": "sum", "split_out": 2, "sort": None}),
    ("groupby_agg", {"by": ["k"], "col": "f", "how": "sum", "split_out": 1, "sort": None}, {"by": ["k"], "col": "g", "how": "sum", "split_out": 1, "sort": None}),
    ("groupby_agg", {"by": ["k"], "col": "f", "how": "mean", "split_out": 1, "sort": None}, {"by": ["k"], "col": "f", "how": "mean", "split_out": 1, "sort": None, "split_every": 2}),
    ("drop_duplicates", {"split_out": 1}, {"split_out": 2}),
    ("reduce:f", {"how": "var", "split_every": None, "ddof": 0}, {"how": "var", "split_every": None, "ddof": 2}),
    ("reduce:f", {"how": "std", "split_every": None}, {"how": "std", "split_every": None, "ddof": 0}),
    ("reduce:f", {"how": "sum", "split_every": None}, {"how": "sum", "split_every": 2}),
    ("reduce:f,g", {"how": "var", "split_every": None, "ddof": 0}, {"how": "var", "split_every": None}),
    ("value_counts:s", {"split_out": 1}, {"split_out": 2}),
    ("groupby_agg", {"by": ["k"], "col": "f", "how": "var", "split_out": 1, "sort": None}, {"by": ["k"], "col": "f", "how": "std", "split_out": 1, "sort": None}),
    ("head", {"n": 2, "npartitions": 1, "how": "head"}, {"n": 3, "npartitions": 1, "how": "head"}),
    ("head", {"n": 3, "npartitions": 1, "how": "head"}, {"n": 3, "npartitions": 2, "how": "head"}),
    ("head", {"n": 3, "npartitions": 1, "how": "head"}, {"n": 3, "npartitions": 1, "how": "tail"}),
    ("nlargest", {"how": "nlargest", "n": 2, "col": "i"}, {"how": "nlargest", "n": 3, "col": "i"}),
    ("nlargest", {"how": "nlargest", "n": 2, "col": "i"}, {"how": "nsmallest", "n": 2, "col": "i"}),
    ("partitions", {"sel": [0]}, {"sel": [1]}),
    ("partitions", {"sel": [0, 1]}, {"sel": [1, 0]}),
    ("filter_pred", {"pred": P("gt", "f", 0)}, {"pred": P("gt", "f", 1)}),
    ("filter_pred", {"pred": P("gt", "f", 0)}, {"pred": P("ge", "f", 0)}),
    ("map_partitions", {"f": "add_one_numeric"}, {"f": "identity"}),
    ("cut", {"how": "persist"}, {"how": "legacy"}),
    ("dropna", {"subset": ["f"]}, {"subset": ["g"]}),
    ("loc_slice", {"lo": 2, "hi": None}, {"lo": 4, "hi": None}),
    ("loc_list", {"labels": [5, 1, 3]}, {"labels": [1, 3, 5]}),
    ("rolling:f,i", {"window": 2, "min_periods": None, "center": False, "how": "sum"}, {"window": 3, "min_periods": None, "center": False, "how": "sum"}),
    ("rolling:f,i", {"window": 2, "min_periods": 1, "center": False, "how": "sum"}, {"window": 2, "min_periods": 1, "center": True, "how": "sum"}),
    ("shift:f,i", {"f": "shift", "periods": 1}, {"f": "shift", "periods": 2}),
    ("shift:f,i", {"f": "diff", "periods": 1}, {"f": "shift", "periods": -1}),
    ("merge", {"on": ["k"], "how": "inner", "suffixes": None, "broadcast": None, "shuffle_method": "tasks"}, {"on": ["k"], "how": "left", "suffixes": None, "broadcast": None, "shuffle_method": "tasks"}),
    ("merge", {"on": ["k"], "how": "inner", "suffixes": None, "broadcast": True, "shuffle_method": None}, {"on": ["k"], "how": "inner", "suffixes": None, "broadcast": False, "shuffle_method": "tasks"}),
]


def sibling_cases(tier):
    cases = []
    lays = LAYOUTS_A[1:6] if tier == "quick" else LAYOUTS_A
    for si, (op, a1, a2) in enumerate(SIBLINGS):
        for li, la in enumerate(lays):
            if op in ("loc_slice", "loc_list") and not la.get("known") and la["kind"] != "from_pandas":
                continue
            ins = ["t0", "t1"] if op == "merge" else ["t0"]
            pre = []
            opname = op
            if ":" in op:  # "reduce:f" -> apply to a projection of the table
                opname, cols = op.split(":")
                cols = cols.split(",")
                pre = [S("p0", "col", ["t0"], col=cols[0])] if len(cols) == 1 else [S("p0", "cols", ["t0"], cols=cols)]
                ins = ["p0"]
            steps = pre + [S("v1", opname, ins, **copy.deepcopy(a1)), S("v2", opname, ins, **copy.deepcopy(a2))]
            tables = [table("t0", ROWS_A, layout=la)]
            if op == "merge":
                tables.append(table("t1", ROWS_B, layout={"kind": "from_map", "cuts": [2, 0, 3]}))
            for sh in (["tasks", "disk"] if tier == "thorough" else [["tasks", "disk"][(si + li) % 2]]):
                cases.append({"tables": tables, "steps": steps, "out": ["v2"], "config": {"shuffle": sh}, "template": f"sibling-{op}-{si}"})
    return cases
