"""Pure, importable user functions used by generated programs (DESIGN §2.2).

All are picklable by reference so that fresh-interpreter references (C08,
C15, C16) can use them.  None of them mutates its input.
"""
import numpy as np
import pandas as pd


def iloc_slice(bounds, pdf=None, columns=None):
    a, b = bounds
    out = pdf.iloc[a:b]
    if columns is not None:
        out = out[columns]
    return out


def iloc_slice_noproj(bounds, pdf=None):
    a, b = bounds
    return pdf.iloc[a:b]


def add_one_numeric(df):
    """Partition-wise, index-preserving, schema-preserving."""
    out = df.copy()
    for c in out.columns:
        if out[c].dtype.kind in "if":
            out[c] = out[c] + 1
    return out


def series_double(s):
    return s * 2


def row_count_col(df):
    """Adds a column whose value depends only on the row itself."""
    return df.assign(_n=1)


def with_partition_info(df, partition_info=None):
    return df


def identity(x):
    return x


def group_demean(g):
    # groupby.transform / apply friendly, numeric columns only
    return g - g.mean()


def group_sum_frame(g):
    return g.sum(numeric_only=True)


def group_len(g):
    return len(g)


def overlap_sum(df, before=0, after=0):
    return df


def raise_in_partition(df, marker=None):
    if len(df) and marker is not None and (df["rid"] == marker).any():
        raise RuntimeError("injected failure")
    return df


def red_chunk(x):
    return x.sum()


def red_agg(x):
    return x.sum()


def window_sum(df, before=0, after=0):
    """centered-ish rolling sum over [i-before, i+after]; only complete windows are kept non-null"""
    w = before + after + 1
    out = df.astype("float64").rolling(w, min_periods=w).sum().shift(-after)
    return out


def row_nansum(row):
    """row-wise UDF for DataFrame.apply(axis=1): needs every column of its input"""
    return float(np.nansum(row.to_numpy(dtype="float64")))


def plus_one(v):
    return v + 1
