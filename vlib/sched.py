"""Own executor (DESIGN §2.5): runs a materialised dask graph in a caller
chosen topological order, keeps every intermediate, optionally monitors
argument mutation (C05)."""
import numpy as np
import pandas as pd
from dask.core import get_dependencies, istask, ishashable, flatten


class GraphError(Exception):
    """The graph itself is malformed (dangling key, cycle)."""


def materialize(expr):
    """dict graph of an expression of any stage (logical plans are lowered)."""
    g = expr.__dask_graph__()
    return dict(g)


def out_keys(expr):
    return [(expr._name, i) for i in range(expr.npartitions)]


def deps_of(graph):
    return {k: get_dependencies(graph, k) for k in graph}


def default_order(graph, deps=None):
    """Deterministic DFS post-order over sorted keys."""
    deps = deps or deps_of(graph)
    seen = set()
    order = []
    onstack = set()
    keys = sorted(graph, key=_key_sort)
    for root in keys:
        if root in seen:
            continue
        stack = [(root, iter(sorted(deps[root], key=_key_sort)))]
        onstack.add(root)
        while stack:
            k, it = stack[-1]
            for d in it:
                if d in seen:
                    continue
                if d in onstack:
                    raise GraphError(f"cycle through {d!r}")
                if d not in graph:
                    raise GraphError(f"dangling {d!r} needed by {k!r}")
                onstack.add(d)
                stack.append((d, iter(sorted(deps[d], key=_key_sort))))
                break
            else:
                stack.pop()
                onstack.discard(k)
                seen.add(k)
                order.append(k)
    return order


def _key_sort(k):
    return (str(type(k)), str(k))


def priority_order(graph, prio, deps=None):
    """Topological order choosing, among ready tasks, the one with the
    smallest priority (prio: key -> number).  Kahn's algorithm."""
    import heapq

    deps = deps or deps_of(graph)
    indeg = {k: len(deps[k]) for k in graph}
    dependents = {k: [] for k in graph}
    for k, ds in deps.items():
        for d in ds:
            dependents[d].append(k)
    ready = [(prio[k], _key_sort(k), k) for k in graph if indeg[k] == 0]
    heapq.heapify(ready)
    order = []
    while ready:
        _, _, k = heapq.heappop(ready)
        order.append(k)
        for c in dependents[k]:
            indeg[c] -= 1
            if indeg[c] == 0:
                heapq.heappush(ready, (prio[c], _key_sort(c), c))
    if len(order) != len(graph):
        raise GraphError("cycle")
    return order


def _execute(arg, cache):
    # dask.core._execute_task semantics, but restricted cache
    if isinstance(arg, list):
        return [_execute(a, cache) for a in arg]
    elif istask(arg):
        func, args = arg[0], arg[1:]
        return func(*(_execute(a, cache) for a in args))
    elif not ishashable(arg):
        return arg
    elif arg in cache:
        return cache[arg]
    else:
        return arg


def fingerprint(obj, depth=0):
    """Content fingerprint used by the mutation monitor."""
    if isinstance(obj, pd.DataFrame):
        try:
            h = int(pd.util.hash_pandas_object(obj, index=True).sum()) if len(obj) else 0
        except Exception:
            h = hash(obj.to_string())
        return (
            "df",
            h,
            tuple(map(str, obj.columns)),
            tuple(map(str, obj.dtypes)),
            str(obj.index.dtype),
            tuple(obj.index.names),
            str(obj.columns.name),
            len(obj),
        )
    if isinstance(obj, pd.Series):
        try:
            h = int(pd.util.hash_pandas_object(obj, index=True).sum()) if len(obj) else 0
        except Exception:
            h = hash(obj.to_string())
        return ("s", h, str(obj.name), str(obj.dtype), str(obj.index.dtype), tuple(obj.index.names), len(obj))
    if isinstance(obj, pd.Index):
        try:
            h = int(pd.util.hash_pandas_object(obj).sum()) if len(obj) else 0
        except Exception:
            h = hash(str(list(obj)))
        return ("i", h, tuple(obj.names), str(obj.dtype), len(obj))
    if isinstance(obj, np.ndarray):
        try:
            return ("a", obj.shape, str(obj.dtype), hash(obj.tobytes()))
        except Exception:
            return ("a", obj.shape, str(obj.dtype), str(obj))
    if isinstance(obj, (list, tuple)) and depth < 4:
        return (type(obj).__name__, tuple(fingerprint(o, depth + 1) for o in obj))
    if isinstance(obj, dict) and depth < 4:
        return ("d", tuple((str(k), fingerprint(v, depth + 1)) for k, v in obj.items()))
    return ("o", type(obj).__name__)


def run_graph(graph, order=None, monitor=False, restrict=True):
    """Execute every task of ``graph``.  Returns (cache, mutations).

    restrict=True hands each task a cache holding only its declared
    dependencies, so an undeclared reference stays a raw key and fails."""
    deps = deps_of(graph)
    for k, ds in deps.items():
        for d in ds:
            if d not in graph:
                raise GraphError(f"dangling {d!r} needed by {k!r}")
    if order is None:
        order = default_order(graph, deps)
    cache = {}
    produced_fp = {}
    mutations = []
    for k in order:
        sub = {d: cache[d] for d in deps[k]} if restrict else cache
        if monitor:
            before = {d: fingerprint(v) for d, v in sub.items()}
        cache[k] = _execute(graph[k], sub)
        if monitor:
            for d, v in sub.items():
                if fingerprint(v) != before[d]:
                    mutations.append({"task": repr(k), "mutated_input": repr(d)})
            produced_fp[k] = fingerprint(cache[k])
    if monitor:
        for k, fp in produced_fp.items():
            if fingerprint(cache[k]) != fp:
                mutations.append({"task": "<later>", "mutated_input": repr(k)})
    return cache, mutations


def partitions_of(expr, graph=None, order=None, monitor=False):
    """Execute expr's graph with the own executor; return list of partition values."""
    graph = graph if graph is not None else materialize(expr)
    cache, mut = run_graph(graph, order=order, monitor=monitor)
    keys = out_keys(expr)
    missing = [k for k in keys if k not in cache]
    if missing:
        raise GraphError(f"output keys not defined: {missing[:3]}")
    return [cache[k] for k in keys], cache, mut


def finalize(expr, parts):
    """What compute() would return from the per-partition values."""
    from dask.dataframe.core import _concat

    return _concat(parts)
