"""Fresh-interpreter side of C16 (and C08/C15 helpers): python -m vlib.receiver <mode> <infile> <outfile>"""
import pickle
import sys
import traceback


def observe_collection(coll):
    from . import plans, structure

    obs = {}
    obs["name"] = coll._name
    obs["meta"] = structure.meta_signature(coll._meta)
    obs["npartitions"] = coll.npartitions
    obs["divisions"] = repr(tuple(coll.divisions))
    obs["result"] = coll.compute()
    return obs


def main():
    mode, infile, outfile = sys.argv[1:4]
    import vlib

    vlib.setup_dask()
    with open(infile, "rb") as f:
        items = pickle.load(f)
    out = []
    if mode == "unpickle":
        import dask

        for it in items:
            try:
                with dask.config.set(it.get("config") or {}):
                    coll = pickle.loads(it["pickle"])
                    out.append({"ok": True, "obs": observe_collection(coll)})
            except Exception as e:
                out.append({"ok": False, "error": f"{type(e).__name__}: {e}", "traceback": traceback.format_exc()[-2500:], "exc_type": type(e).__name__})
    elif mode == "names":
        from .props import c08

        out = c08.emit_names(items)
    else:
        raise SystemExit(f"unknown mode {mode}")
    with open(outfile, "wb") as f:
        pickle.dump(out, f)


if __name__ == "__main__":
    main()
