"""Spawn fresh interpreters (C08, C15, C16)."""
import os
import pickle
import subprocess
import sys
import uuid

from . import VERIF_ROOT


def work_dir():
    d = os.environ.get("VERIF_WORK") or os.path.join(VERIF_ROOT, ".work", f"sub-{os.getpid()}")
    os.makedirs(d, exist_ok=True)
    return d


def run_receiver(mode, items, hashseed="0", timeout=600, module="vlib.receiver"):
    d = work_dir()
    tag = uuid.uuid4().hex[:10]
    fin, fout = os.path.join(d, f"in-{tag}.pkl"), os.path.join(d, f"out-{tag}.pkl")
    with open(fin, "wb") as f:
        pickle.dump(items, f)
    env = dict(os.environ, PYTHONHASHSEED=str(hashseed), PYTHONDONTWRITEBYTECODE="1")
    try:
        p = subprocess.run([sys.executable, "-m", module, mode, fin, fout], cwd=VERIF_ROOT, env=env, capture_output=True, text=True, timeout=timeout)
        if p.returncode != 0 or not os.path.exists(fout):
            raise RuntimeError(f"receiver failed rc={p.returncode}: {p.stderr[-1500:]}")
        with open(fout, "rb") as f:
            return pickle.load(f)
    finally:
        for x in (fin, fout):
            try:
                os.remove(x)
            except OSError:
                pass
