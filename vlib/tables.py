"""Tables and layouts as data (DESIGN §2.3).

A table spec is JSON:
  {"name": "t0",
   "columns": [["k","int"],["f","float"],...],
   "rows": [[...], ...],
   "index": {"kind": "range"|"int"|"float"|"str"|"dt", "values": [...], "name": None|"idx"},
   "layout": {...}}
kinds: int float str bool cat dt
Missing values are None in rows (allowed for float, str, cat, dt).
"""
import numpy as np
import pandas as pd

CATS = ["u", "v", "w", "zz"]  # "zz" is never observed
T0 = pd.Timestamp("2000-01-03")


def make_col(vals, kind):
    if kind == "int":
        return np.array(vals, dtype="int64")
    if kind == "float":
        return np.array([np.nan if v is None else float(v) for v in vals], dtype="float64")
    if kind == "str":
        return pd.array(list(vals), dtype="string[pyarrow]")
    if kind == "bool":
        return np.array(vals, dtype=bool)
    if kind == "cat":
        return pd.Categorical(list(vals), categories=CATS)
    if kind == "dt":
        return pd.to_datetime(
            [pd.NaT if v is None else T0 + pd.Timedelta(days=int(v)) for v in vals]
        ).astype("datetime64[ns]")
    raise ValueError(kind)


def make_index(spec, n):
    if spec is None or spec["kind"] == "range":
        idx = pd.RangeIndex(n)
        if spec and spec.get("name"):
            idx = idx.rename(spec["name"])
        return idx
    vals = spec["values"]
    assert len(vals) == n, (len(vals), n)
    kind = spec["kind"]
    if kind == "int":
        idx = pd.Index(np.array(vals, dtype="int64"))
    elif kind == "float":
        idx = pd.Index(np.array(vals, dtype="float64"))
    elif kind == "str":
        # the default string index of this pandas: an explicit ``string[pyarrow]`` extension index with repeated labels is rejected by
        # the pinned dask's sorted_division_locations (ArrowExtensionArray has no .nonzero) while from_pandas builds the source
        idx = pd.Index(list(vals))
    elif kind == "dt":
        idx = pd.DatetimeIndex([T0 + pd.Timedelta(days=int(v)) for v in vals]).astype(
            "datetime64[ns]"
        )
    else:
        raise ValueError(kind)
    return idx.rename(spec.get("name"))


def build_pandas(spec) -> pd.DataFrame:
    cols = spec["columns"]
    rows = spec["rows"]
    data = {}
    for j, (name, kind) in enumerate(cols):
        data[name] = make_col([r[j] for r in rows], kind)
    idx = make_index(spec.get("index"), len(rows))
    pdf = pd.DataFrame(data, index=idx, columns=[c for c, _ in cols])
    return pdf


def index_value(kind, v):
    """A python literal (JSON) -> value comparable with the index of that kind."""
    if kind == "dt":
        return T0 + pd.Timedelta(days=int(v))
    if kind == "float":
        return float(v)
    return v


# ---------------------------------------------------------------- layouts


def cut_bounds(cuts):
    """[2,0,3] -> [(0,2),(2,2),(2,5)]"""
    out = []
    a = 0
    for c in cuts:
        out.append((a, a + c))
        a += c
    return out


def valid_division_cuts(pdf, cuts):
    """Known divisions are only meaningful when the index is sorted and a cut
    does not split a run of equal index values, and no partition is empty
    except that emptiness can be expressed (we keep it simple: non-empty)."""
    if not pdf.index.is_monotonic_increasing or pdf.index.hasnans:
        return False
    if len(pdf) == 0 or any(c == 0 for c in cuts):
        return False
    b = cut_bounds(cuts)
    for (a0, a1), (b0, b1) in zip(b, b[1:]):
        if pdf.index[a1 - 1] == pdf.index[b0]:
            return False
    return True


def divisions_for_cuts(pdf, cuts):
    b = cut_bounds(cuts)
    divs = [pdf.index[a] for a, _ in b] + [pdf.index[-1]]
    return tuple(divs)


def build_dask(spec, pdf=None):
    """Create the dask-expr collection for a table spec through the public API."""
    import dask
    import dask_expr as dx
    from . import udfs

    if pdf is None:
        pdf = build_pandas(spec)
    lay = spec.get("layout") or {"kind": "from_pandas", "npartitions": 1}
    kind = lay["kind"]
    if kind == "from_pandas":
        kw = {}
        if "chunksize" in lay:
            kw["chunksize"] = lay["chunksize"]
        else:
            kw["npartitions"] = lay.get("npartitions", 1)
        if lay.get("row_perm"):
            # the user's frame is NOT sorted by its (unique) index; from_pandas(sort=True) sorts it, which gives ``pdf`` again
            assert lay.get("sort", True) and pdf.index.is_unique and sorted(lay["row_perm"]) == list(range(len(pdf)))
            return dx.from_pandas(pdf.iloc[lay["row_perm"]], sort=True, **kw)
        return dx.from_pandas(pdf, sort=lay.get("sort", True), **kw)
    cuts = lay["cuts"]
    assert sum(cuts) == len(pdf), (cuts, len(pdf))
    bounds = cut_bounds(cuts)
    known = lay.get("known", False)
    divisions = divisions_for_cuts(pdf, cuts) if known else None
    if kind == "from_map":
        kw = {}
        if divisions is not None:
            kw["divisions"] = divisions
        return dx.from_map(
            udfs.iloc_slice, bounds, pdf=pdf, meta=pdf.iloc[:0], enforce_metadata=False, **kw
        )
    if kind == "from_delayed":
        parts = [dask.delayed(udfs.iloc_slice)(b, pdf=pdf) for b in bounds]
        kw = {}
        if divisions is not None:
            kw["divisions"] = divisions
        if lay.get("prefix"):
            kw["prefix"] = lay["prefix"]
        return dx.from_delayed(parts, meta=pdf.iloc[:0], **kw)
    if kind == "divisions":
        # FromPandasDivisions
        assert known
        return dx.repartition(pdf, divisions=list(divisions))
    if kind == "concat":
        # partitions as separate from_pandas frames concatenated
        frames = [dx.from_pandas(pdf.iloc[a:b], npartitions=1, sort=False) for a, b in bounds if b > a]
        if len(frames) == 1:
            return frames[0]
        return dx.concat(frames)
    raise ValueError(kind)


def all_cuts(n, with_empty=False):
    """All compositions of n (2^(n-1) cut vectors); optionally variants with one
    empty partition inserted at each position."""
    out = []
    if n == 0:
        return [[0]]
    for mask in range(1 << (n - 1)):
        cuts = []
        run = 1
        for i in range(n - 1):
            if mask >> i & 1:
                cuts.append(run)
                run = 1
            else:
                run += 1
        cuts.append(run)
        out.append(cuts)
    if with_empty:
        extra = []
        for cuts in out:
            for pos in range(len(cuts) + 1):
                extra.append(cuts[:pos] + [0] + cuts[pos:])
        out = out + extra
    return out


# ------------------------------------------------------- hypothesis strategies


def st_table(draw, name="t0", max_rows=14, min_rows=0, index_kinds=("range", "int", "str", "float", "dt"),
             extra_cols=True, rid=True):
    """Draw a table spec (to be called from inside an @st.composite)."""
    from hypothesis import strategies as st

    n = draw(st.integers(min_rows, max_rows))
    cols = [["k", "int"], ["f", "float"], ["g", "float"], ["s", "str"]]
    if extra_cols:
        opt = [["i", "int"], ["b", "bool"], ["c", "cat"], ["d", "dt"], ["k2", "int"]]
        mask = draw(st.integers(0, 31))
        # tables other than t0 get their own names for the optional columns, so that joins see
        # un-suffixed one-sided columns as well as colliding ones (k, f, g, s are shared)
        tag = "" if name == "t0" else name[1:]
        cols += [[c[0] + tag, c[1]] for j, c in enumerate(opt) if mask >> j & 1]
    if rid:
        cols.append(["rid", "int"])
    rows = []
    for r in range(n):
        row = []
        for cname, kind in cols:
            if cname == "rid":
                row.append(r)
            else:
                row.append(draw(st_cell(kind)))
        rows.append(row)
    ikind = draw(st.sampled_from(list(index_kinds)))
    index = {"kind": ikind, "name": draw(st.sampled_from([None, None, "idx"]))}
    if ikind != "range":
        vals = sorted(draw(st.lists(st.integers(0, 6), min_size=n, max_size=n)))
        if ikind == "str":
            vals = ["abcdefg"[v] for v in vals]
        elif ikind == "float":
            vals = [v / 2 for v in vals]
        index["values"] = vals
    spec = {"name": name, "columns": cols, "rows": rows, "index": index}
    spec["layout"] = draw(st_layout(spec))
    return spec


def st_cell(kind):
    from hypothesis import strategies as st

    if kind == "int":
        return st.integers(0, 3)
    if kind == "float":
        return st.one_of(st.integers(-6, 6).map(lambda v: v / 2), st.none())
    if kind == "str":
        return st.one_of(st.sampled_from(["a", "b", "c", "dd"]), st.none())
    if kind == "bool":
        return st.booleans()
    if kind == "cat":
        return st.one_of(st.sampled_from(CATS[:3]), st.none())
    if kind == "dt":
        return st.one_of(st.integers(0, 5), st.none())
    raise ValueError(kind)


def st_layout(spec):
    from hypothesis import strategies as st

    n = len(spec["rows"])

    @st.composite
    def _lay(draw):
        choice = draw(st.integers(0, 5))
        if choice <= 1 or n == 0:
            lay = {"kind": "from_pandas", "npartitions": draw(st.integers(1, 4)), "sort": True}
            idx = spec.get("index") or {}
            unique = idx.get("kind", "range") == "range" or len(set(idx.get("values", []))) == n
            if n > 1 and unique and draw(st.integers(0, 3)) == 0:
                # hand from_pandas the rows in another order (it sorts them by the index)
                lay["row_perm"] = draw(st.permutations(list(range(n))))
            return lay
        # a cut vector, possibly with empty partitions
        k = draw(st.integers(1, min(5, n)))
        pts = sorted(draw(st.lists(st.integers(0, n), min_size=k - 1, max_size=k - 1)))
        cuts = [b - a for a, b in zip([0] + pts, pts + [n])]
        lay = {"kind": ["from_map", "from_delayed", "from_map", "concat"][choice - 2], "cuts": cuts}
        if lay["kind"] != "concat" and draw(st.booleans()):
            pdf = build_pandas(spec)
            if valid_division_cuts(pdf, cuts):
                lay["known"] = True
                if draw(st.booleans()):
                    lay["kind"] = "divisions"
        return lay

    return _lay()
