"""Structural minimiser candidates for programs (DESIGN §2.7 step 5).

A candidate is only yielded when it is still a well-typed program (the
pandas side runs)."""
import copy

from . import interp
from . import ops as O
from . import tables as T


def _valid(prog):
    try:
        pv = interp.run_pandas(prog)
        fl = interp.static_flags(prog, pv)
        for st in prog["steps"]:
            if not O.precondition(st["op"], [(pv[i], fl[i]) for i in st["in"]], st.get("args", {})):
                return False
            if not fl[st["id"]].defined and st["id"] not in prog["out"]:
                return False
        for t in prog["tables"]:
            lay = t.get("layout") or {}
            if "cuts" in lay and sum(lay["cuts"]) != len(t["rows"]):
                return False
            if lay.get("known"):
                if not T.valid_division_cuts(T.build_pandas(t), lay["cuts"]):
                    return False
        return True
    except Exception:
        return False


def program_candidates(prog):
    prog = interp.prune(prog)
    steps = prog["steps"]
    # 1. cut the program at an earlier output
    for i in range(len(steps) - 1):
        p = copy.deepcopy(prog)
        p["out"] = [steps[i]["id"]]
        p = interp.prune(p)
        if _valid(p):
            yield p
    # 2. splice a step out: consumers use its first input instead
    for i, s in enumerate(steps):
        if not s["in"]:
            continue
        for repl in s["in"]:
            p = copy.deepcopy(prog)
            sid = s["id"]
            if sid in p["out"]:
                continue
            for s2 in p["steps"]:
                s2["in"] = [repl if x == sid else x for x in s2["in"]]
            p["steps"] = [x for x in p["steps"] if x["id"] != sid]
            p = interp.prune(p)
            if _valid(p):
                yield p
    # 3. simplify layouts
    for ti, t in enumerate(prog["tables"]):
        lay = t.get("layout") or {}
        alts = []
        if lay.get("kind") == "from_pandas":
            n = lay.get("npartitions", 1)
            if n > 1:
                alts.append(dict(lay, npartitions=n - 1))
                alts.append(dict(lay, npartitions=1))
        else:
            cuts = lay.get("cuts", [])
            if len(cuts) > 1:
                for j in range(len(cuts) - 1):
                    alts.append(dict(lay, cuts=cuts[:j] + [cuts[j] + cuts[j + 1]] + cuts[j + 2:]))
            k = len([c for c in cuts if c > 0]) or 1
            alts.append({"kind": "from_pandas", "npartitions": min(k, 3), "sort": True})
            if lay.get("known"):
                l2 = dict(lay)
                l2.pop("known")
                if l2["kind"] == "divisions":
                    l2["kind"] = "from_map"
                alts.append(l2)
        for a in alts:
            p = copy.deepcopy(prog)
            p["tables"][ti]["layout"] = a
            if _valid(p):
                yield p
    # 4. drop rows
    for ti, t in enumerate(prog["tables"]):
        n = len(t["rows"])
        if n == 0:
            continue
        chunks = []
        if n >= 4:
            chunks += [(0, n // 2), (n // 2, n)]
        chunks += [(i, i + 1) for i in range(n)]
        for a, b in chunks:
            p = copy.deepcopy(prog)
            tt = p["tables"][ti]
            tt["rows"] = tt["rows"][:a] + tt["rows"][b:]
            if tt.get("index") and "values" in tt["index"]:
                tt["index"]["values"] = tt["index"]["values"][:a] + tt["index"]["values"][b:]
            lay = tt.get("layout") or {}
            if "cuts" in lay:
                # remove the rows from the partitions that held them
                cuts = list(lay["cuts"])
                pos = 0
                newc = []
                for c in cuts:
                    lo, hi = pos, pos + c
                    rem = max(0, min(hi, b) - max(lo, a))
                    newc.append(c - rem)
                    pos = hi
                lay = dict(lay, cuts=newc)
                tt["layout"] = lay
            if _valid(p):
                yield p
    # 5. drop unused columns of tables
    used = repr(prog["steps"])
    for ti, t in enumerate(prog["tables"]):
        for ci, (cname, _) in enumerate(t["columns"]):
            if f"'{cname}'" in used or len(t["columns"]) <= 1:
                continue
            p = copy.deepcopy(prog)
            tt = p["tables"][ti]
            tt["columns"] = tt["columns"][:ci] + tt["columns"][ci + 1:]
            tt["rows"] = [r[:ci] + r[ci + 1:] for r in tt["rows"]]
            if _valid(p):
                yield p
    # 6. config
    if (prog.get("config") or {}).get("shuffle") == "disk":
        p = copy.deepcopy(prog)
        p["config"]["shuffle"] = "tasks"
        yield p
