"""Verification engine for the dask-expr properties C01..C19.

Importing this package pins the process-wide settings every check relies on:
synchronous scheduler, no bytecode written into /repo, warnings from the
libraries under test not turned into noise.
"""
import os
import sys
import warnings

sys.dont_write_bytecode = True
os.environ.setdefault("PYTHONDONTWRITEBYTECODE", "1")

VERIF_ROOT = os.path.dirname(os.path.dirname(os.path.abspath(__file__)))
REPO_ROOT = os.environ.get("VERIF_REPO", "/repo")

# checks must run against /repo's *current working tree*
if REPO_ROOT not in sys.path:
    sys.path.insert(0, REPO_ROOT)
_deps = os.path.join(VERIF_ROOT, ".deps")
if os.path.isdir(_deps) and _deps not in sys.path:
    sys.path.append(_deps)

warnings.filterwarnings("ignore")


def setup_dask():
    import dask

    dask.config.set(scheduler="sync")
    work = os.environ.get("VERIF_WORK")
    if work:
        dask.config.set(temporary_directory=work)
    return dask
