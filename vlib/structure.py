"""Structural oracles shared by C06 (partition structure), C07 (schema) and
C14 (fusion): one all-keys execution per (SSA value, stage)."""
import numpy as np
import pandas as pd

from . import interp, plans
from . import ops as O
from .compare import container_kind, dtype_compatible, equiv

STAGES = ["logical", "simplified-logical", "physical", "fused"]


def _index_values(part):
    if isinstance(part, (pd.DataFrame, pd.Series)):
        return part.index
    if isinstance(part, pd.Index):
        return part
    return None


def check_divisions(divs, parts, where):
    """C06 predicate on one plan: returns list of (kind, detail)."""
    out = []
    n = len(parts)
    if len(divs) != n + 1:
        out.append(("divisions-length", f"{where}: {len(divs)} divisions for {n} computed partitions"))
        return out
    if len(divs) == 0 or divs[0] is None:
        if any(d is not None for d in divs):
            out.append(("divisions-mixed-none", f"{where}: divisions {divs!r} mix None and values"))
        return out
    if any(d is None or (isinstance(d, float) and np.isnan(d)) for d in divs):
        out.append(("divisions-mixed-none", f"{where}: divisions {divs!r} contain nulls"))
        return out
    try:
        for a, b in zip(divs, divs[1:]):
            if a > b:
                out.append(("divisions-unsorted", f"{where}: divisions {divs!r} are not sorted"))
                return out
    except TypeError:
        out.append(("divisions-uncomparable", f"{where}: divisions {divs!r}"))
        return out
    for i, p in enumerate(parts):
        idx = _index_values(p)
        if idx is None or isinstance(idx, pd.MultiIndex) or len(idx) == 0:
            continue
        vals = idx[~idx.isna()] if idx.hasnans else idx
        if len(vals) == 0:
            continue
        if isinstance(vals, pd.CategoricalIndex):
            # an unordered categorical has no min/max: compare the labels themselves
            vals = pd.Index(vals.astype(object))
        try:
            lo, hi = vals.min(), vals.max()
            last = i == n - 1
            if lo < divs[i] or (hi > divs[i + 1] if last else hi >= divs[i + 1]):
                out.append(("partition-outside-divisions", f"{where}: partition {i} has index range [{lo!r}, {hi!r}] outside [{divs[i]!r}, {divs[i + 1]!r}{']' if last else ')'}; divisions={divs!r}"))
                return out
        except TypeError:
            out.append(("divisions-uncomparable", f"{where}: index values not comparable with divisions {divs!r}"))
            return out
    return out


def _nm(x):
    """pandas 3 infers a str-typed column Index for [..., None], which turns a missing name into NaN: None and NaN names are the same 'no name'"""
    if isinstance(x, float) and x != x:
        return None
    return x


def meta_signature(meta):
    k = container_kind(meta)
    if k == "frame":
        return (k, tuple(map(str, meta.columns)), tuple(map(str, meta.dtypes)), tuple(meta.index.names), str(meta.columns.name))
    if k in ("series", "index"):
        return (k, str(_nm(meta.name)), str(meta.dtype), tuple(meta.index.names) if k == "series" else ())
    return (k, type(meta).__name__)


def check_schema(meta, res, parts, where):
    """C07 predicate: declared meta vs computed result and each partition."""
    out = []
    mk, rk = container_kind(meta), container_kind(res)
    if mk == "scalar":
        if rk != "scalar":
            out.append(("container-type", f"{where}: declared scalar, computed {rk}"))
        return out
    if mk != rk:
        out.append(("container-type", f"{where}: declared {mk}, computed {rk}"))
        return out

    def labels(x):
        if isinstance(x, pd.DataFrame):
            return ("cols", list(x.columns), tuple(x.index.names))
        if isinstance(x, pd.Series):
            return ("name", _nm(x.name), tuple(_nm(n) for n in x.index.names))
        if isinstance(x, pd.Index):
            return ("name", tuple(_nm(n) for n in x.names))
        return None

    ml = labels(meta)
    if labels(res) != ml:
        out.append(("labels", f"{where}: declared {ml!r}, computed {labels(res)!r}"))
        return out
    for i, p in enumerate(parts):
        if container_kind(p) != mk:
            out.append(("partition-container-type", f"{where}: partition {i} is a {container_kind(p)}, declared {mk}"))
            return out
        if labels(p) != ml:
            out.append(("partition-labels", f"{where}: partition {i} has {labels(p)!r}, declared {ml!r}"))
            return out
    # dtype kinds (skipped for 0-row results)
    if len(res) > 0:
        if mk == "frame":
            for j, c in enumerate(meta.columns):
                col = res.iloc[:, j]
                if col.isna().all() and col.dtype.kind in "fO":
                    continue  # a column without any value: pandas' concat / combine give it float64 or object whatever it was declared
                if not dtype_compatible(meta.dtypes.iloc[j], col.dtype, bool(col.isna().any()), "kindpromo"):
                    out.append(("dtype-kind", f"{where}: column {c!r} declared {meta.dtypes.iloc[j]}, computed {col.dtype}"))
                    return out
            if not isinstance(res.index, pd.MultiIndex) and not dtype_compatible(meta.index.dtype, res.index.dtype, bool(res.index.hasnans), "kind"):
                out.append(("index-dtype-kind", f"{where}: index declared {meta.index.dtype}, computed {res.index.dtype}"))
        elif mk == "series":
            if not dtype_compatible(meta.dtype, res.dtype, bool(res.isna().any()), "kindpromo"):
                out.append(("dtype-kind", f"{where}: series declared {meta.dtype}, computed {res.dtype}"))
            elif not isinstance(res.index, pd.MultiIndex) and not dtype_compatible(meta.index.dtype, res.index.dtype, bool(res.index.hasnans), "kind"):
                out.append(("index-dtype-kind", f"{where}: index declared {meta.index.dtype}, computed {res.index.dtype}"))
        elif mk == "index" and not isinstance(res, pd.MultiIndex):
            if not dtype_compatible(meta.dtype, res.dtype, bool(res.hasnans), "kind"):
                out.append(("dtype-kind", f"{where}: index declared {meta.dtype}, computed {res.dtype}"))
    return out


def observe(prog, stages=STAGES, values=None):
    """Yield (value id, stage, expr_at_stage, lowered, result, parts) for every SSA value."""
    try:
        dvals = interp.run_dask(prog)
    except Exception:
        return  # the query cannot even be built: nothing to observe (counted by the caller via zero observations)
    ids = [t["name"] for t in prog["tables"]] + [s["id"] for s in prog["steps"]]
    for vid in ids:
        if values is not None and vid not in values:
            continue
        v = dvals[vid]
        if not hasattr(v, "expr"):
            continue
        for stage in stages:
            try:
                se = plans.optimize_until(v.expr, stage)
                res, parts, cache, _, low = plans.execute(se)
            except Exception as e:
                yield vid, stage, None, None, e, None, v
                break
            yield vid, stage, se, low, res, parts, v
