"""C08 — expression names are deterministic and collision-free (DESIGN §3 C08)."""
import copy
import functools
import hashlib

import numpy as np
import pandas as pd

from .. import gen, interp, plans, subproc, templates
from .. import ops as O
from ..runner import Failure

LEVEL = "exploration"
RULE = (
    "batches of 8 Hypothesis-generated programs (+ template and sibling-variant batches). (a) determinism: every batch is rebuilt in 2 FRESH interpreters with other PYTHONHASHSEEDs and other "
    "construction orders (reversed; interleaved with unrelated queries; each query built twice); the _name of every node of the logical and of the optimized plan and the sorted task keys "
    "(tasks shuffle; names only under disk, whose store token is random by design) must be identical to the origin's. (b) collision-freeness: an independent structural fingerprint "
    "S(e) = (class, S(operands) | content hash of literals) is computed for every node of every plan of the batch, of all single-site program variants (one literal / column / keyword / data cell "
    "changed) and of all single-operand perturbations type(node)(*operands'); name(e1)==name(e2) <=> S(e1)==S(e2) must hold over all of them; a program variant over other data must rename the root (also for from_delayed sources with and without prefix=, which take part in (b) only). "
    "non-trivial = a pair of expressions of one class differing in exactly one operand; distinct by (class, operand position)"
)
ASSUMPTIONS = ["queries over user-created dask.delayed objects are excluded from cross-process comparison (delayed keys are random unless the user asks for pure=True)",
               "the documented cache slot _dataset_info_cache is not part of an expression's identity"]
BUDGET_S = {"quick": 175, "thorough": 900}
NO_FRESH_CONFIRM = True
MINIMISE_EVALS = {"quick": 12, "thorough": 100}
BATCH = 8

PROFILE_Q = gen.Profile("names", max_steps=5, max_rows=8, siblings=20, exclude=("cut",))
PROFILE_T = gen.Profile("names", max_steps=8, max_rows=12, n_tables=(1, 3), siblings=20, exclude=("cut",))


def _no_delayed(prog):
    return not any((t.get("layout") or {}).get("kind") == "from_delayed" for t in prog["tables"]) and not any(s["op"] == "cut" and "delayed" in s["args"].get("how", "") for s in prog["steps"])


def delayed_source_cases(tier):
    """sources built from user Delayed objects (their keys are random, so only the in-process collision part applies): with and without
    an explicit name prefix, with and without divisions"""
    S_ = templates.S
    out = []
    for lay in ({"kind": "from_delayed", "cuts": [1, 5, 2]}, {"kind": "from_delayed", "cuts": [1, 5, 2], "prefix": "src"}, {"kind": "from_delayed", "cuts": [3, 3, 2], "known": True, "prefix": "src"},
                {"kind": "from_map", "cuts": [1, 5, 2]}):
        t = templates.table("t0", templates.ROWS_A, layout=lay)
        for steps in ([S_("v1", "cols", ["t0"], cols=["f", "k"])], [S_("v1", "col", ["t0"], col="i"), S_("v2", "reduce", ["v1"], how="sum", split_every=None)]):
            out.append({"tables": [t], "steps": steps, "out": [steps[-1]["id"]], "config": {"shuffle": "tasks"}, "template": "delayed-source"})
    return out


def systematic(tier):
    cs = [c for c in templates.c01_cases(tier) + templates.sibling_cases(tier) if _no_delayed(c)]
    # every batch costs two fresh interpreters: the templates are sub-sampled in both tiers
    cs = cs[::12] if tier == "quick" else cs[::4]
    ds = delayed_source_cases(tier)
    return [{"batch": cs[i : i + BATCH]} for i in range(0, len(cs), BATCH)] + [{"batch": ds[i : i + BATCH], "only_part": "collisions"} for i in range(0, len(ds), BATCH)]


def strategy(tier):
    from hypothesis import strategies as st

    prof = PROFILE_Q if tier == "quick" else PROFILE_T
    one = st.builds(lambda p, sh: dict(p, config={"shuffle": sh}), gen.programs(prof), st.sampled_from(["tasks", "tasks", "disk"])).filter(_no_delayed)
    return st.builds(lambda b: {"batch": b}, st.lists(one, min_size=BATCH, max_size=BATCH))


def n_random(tier):
    return 16 if tier == "quick" else 40


# ----------------------------------------------------------------- name emission (runs in origin and receivers)


def names_of(prog):
    out = {}
    with plans.config(prog.get("config")):
        coll = interp.run_dask(prog)[prog["out"][0]]
        if not hasattr(coll, "expr"):
            return {"skip": True}
        e = coll.expr
        out["logical"] = sorted(n._name for n in e.walk())
        out["root"] = e._name
        try:
            o = e.optimize()
            out["optimized"] = sorted(repr(n._name) for n in o.walk())
            if (prog.get("config") or {}).get("shuffle") != "disk":
                out["keys"] = sorted(repr(k) for k in o.__dask_graph__())
            else:
                out["keys"] = sorted(repr(k) for k in o.__dask_keys__())
        except Exception as ex:
            out["optimize_error"] = type(ex).__name__
    return out


def emit_names(items):
    """receiver side: items = {"programs": [...], "order": "reversed"|"interleaved"}"""
    import dask_expr as dx

    progs = items["programs"]
    idx = list(range(len(progs)))
    if items["order"] == "reversed":
        idx = idx[::-1]
    res = [None] * len(progs)
    for j, i in enumerate(idx):
        if items["order"] == "interleaved":
            # unrelated queries in between, and build everything twice
            junk = dx.from_pandas(pd.DataFrame({"a": range(5 + j), "b": list("xyzuvw"[: 5 + j] if j == 0 else ["q"] * (5 + j))}), npartitions=2)
            (junk.a + j).sum().optimize()
            junk.groupby("b").a.sum().optimize()
            try:
                names_of(progs[i])
            except Exception:
                pass
        try:
            res[i] = names_of(progs[i])
        except Exception as e:
            res[i] = {"error": f"{type(e).__name__}: {e}"}
    return res


# ----------------------------------------------------------------- structural fingerprint (independent of tokenize)


def _h(b):
    return hashlib.sha1(b).hexdigest()[:16]


def S_literal(x, depth=0):
    from dask_expr._core import Expr
    from dask_expr._util import _BackendData

    if isinstance(x, Expr):
        return S(x)
    if isinstance(x, _BackendData):
        return ("backend", S_literal(x._data))
    if isinstance(x, pd.DataFrame):
        return ("df", tuple(map(repr, x.columns)), tuple(map(str, x.dtypes)), repr(x.columns.name), S_literal(x.index), tuple(S_literal(x.iloc[:, j].reset_index(drop=True), 1)[-1] for j in range(x.shape[1])))
    if isinstance(x, pd.Series):
        vals = x.astype(object).where(x.notna(), None).tolist()
        return ("s", repr(x.name), str(x.dtype), S_literal(x.index) if depth == 0 else None, _h(repr(vals).encode()))
    if isinstance(x, pd.Index):
        return ("i", str(x.dtype), repr(tuple(x.names)), _h(repr(x.tolist()).encode()), type(x).__name__)
    if isinstance(x, np.ndarray):
        return ("a", str(x.dtype), x.shape, _h(x.tobytes()) if x.dtype != object else _h(repr(x.tolist()).encode()))
    if isinstance(x, (list, tuple)):
        return (type(x).__name__,) + tuple(S_literal(v, depth) for v in x)
    if isinstance(x, (set, frozenset)):
        return (type(x).__name__,) + tuple(sorted(map(repr, x)))
    if isinstance(x, dict):
        return ("dict",) + tuple((repr(k), S_literal(v, depth)) for k, v in x.items())
    if isinstance(x, functools.partial):
        return ("partial", S_literal(x.func), S_literal(x.args), S_literal(x.keywords))
    if callable(x) and hasattr(x, "__qualname__"):
        return ("fn", getattr(x, "__module__", ""), x.__qualname__)
    if isinstance(x, float) and x != x:
        return ("nan",)
    if isinstance(x, (np.generic,)):
        return ("np", str(x.dtype), repr(x.item()))
    return (type(x).__name__, repr(x))


def S(e):
    cls = type(e)
    params = getattr(cls, "_parameters", [])
    ops = []
    for i, op in enumerate(e.operands):
        pname = params[i] if i < len(params) else f"*{i}"
        if pname == "_dataset_info_cache":
            continue
        ops.append((pname, S_literal(op)))
    return (cls.__module__ + "." + cls.__qualname__, tuple(ops))


def Skey(e):
    return _h(repr(S(e)).encode())


# ----------------------------------------------------------------- variants


def perturb(v):
    """a different value of the same type (None when there is no obvious one)"""
    if isinstance(v, bool):
        return not v
    if isinstance(v, int):
        return v + 1
    if isinstance(v, float):
        return v + 0.5
    if isinstance(v, str):
        return v + "x"
    if isinstance(v, (list, tuple)) and v:
        if not all(isinstance(x, (int, float, str, bool, type(None))) for x in v):
            return None
        return v[::-1] if len(v) > 1 and list(v[::-1]) != list(v) else v + v[:1]
    if isinstance(v, dict):
        for k in v:
            p = perturb(v[k])
            if p is not None:
                d = dict(v)
                d[k] = p  # keys need not be strings
                return d
        return dict(v, **{"__extra__": 1})
    return None


def program_variants(prog):
    """single-site variations of a program (args leaves and data cells)"""
    out = []

    def walk(obj, path):
        if isinstance(obj, dict):
            for k, v in obj.items():
                yield from walk(v, path + [k])
        elif isinstance(obj, list) and obj and all(not isinstance(x, (dict, list)) for x in obj):
            yield path, obj
            for i, v in enumerate(obj):
                yield path + [i], v
        elif isinstance(obj, list):
            for i, v in enumerate(obj):
                yield from walk(v, path + [i])
        else:
            yield path, obj

    for si, st_ in enumerate(prog["steps"]):
        for path, leaf in walk(st_.get("args", {}), []):
            p = perturb(leaf)
            if p is None:
                continue
            v = copy.deepcopy(prog)
            tgt = v["steps"][si]["args"]
            for k in path[:-1]:
                tgt = tgt[k]
            tgt[path[-1]] = p
            out.append(("arg", si, path, v))
    for ti, t in enumerate(prog["tables"]):
        if t["rows"]:
            for ci, (cname, kind) in enumerate(t["columns"]):
                if kind in ("int", "float") and t["rows"][0][ci] is not None:
                    v = copy.deepcopy(prog)
                    v["tables"][ti]["rows"][0][ci] = t["rows"][0][ci] + 1
                    out.append(("cell", ti, [0, ci], v))
                    break
            if len(t["rows"]) >= 2 and t["rows"][0] != t["rows"][1] and (t.get("index") or {}).get("kind", "range") == "range":
                v = copy.deepcopy(prog)
                v["tables"][ti]["rows"][0], v["tables"][ti]["rows"][1] = t["rows"][1], t["rows"][0]
                out.append(("rows-swapped", ti, [], v))
        lay = t.get("layout") or {}
        if lay.get("kind") == "from_pandas":
            v = copy.deepcopy(prog)
            v["tables"][ti]["layout"]["npartitions"] = lay.get("npartitions", 1) + 1
            out.append(("layout", ti, [], v))
    return out


def check(case):
    progs = case["batch"]
    failures, classes, nts = [], [], []
    origin = []
    exprs = []  # (label, expr)
    for pi, prog in enumerate(progs):
        try:
            origin.append(names_of(prog))
        except Exception as e:
            origin.append({"error": type(e).__name__})
            continue
        try:
            with plans.config(prog.get("config")):
                dv = interp.run_dask(prog)
                for vid, v in dv.items():
                    if hasattr(v, "expr"):
                        exprs.append((f"p{pi}:{vid}", v.expr))
                        try:
                            exprs.append((f"p{pi}:{vid}:opt", v.expr.optimize()))
                        except Exception:
                            pass
                for kind, where, path, var in program_variants(prog)[: (12 if len(progs) > 1 else 40)]:
                    try:
                        interp.run_pandas(var)
                        ev = interp.run_dask(var)[var["out"][0]]
                        if hasattr(ev, "expr"):
                            exprs.append((f"p{pi}:variant:{kind}:{where}:{path}", ev.expr))
                            classes.append("variant:" + kind)
                            root = dv[prog["out"][0]]
                            # other data => another query: the root must get another name (expressions are singletons keyed by
                            # their name, so a collision would hand back the ORIGINAL source and S() could not see the difference)
                            live = set(interp.static_flags(prog)[prog["out"][0]].srcs)
                            if kind in ("cell", "rows-swapped") and prog["tables"][where]["name"] in live and hasattr(root, "expr") and ev.expr._name == root.expr._name:
                                failures.append(Failure("name-collision", f"program {pi}: the same query over different data ({kind} of table {where} changed) has the same name {ev.expr._name!r}",
                                                        extra={"bucket_hint": "data-variant", "program": prog}).record())
                    except Exception:
                        continue
        except Exception:
            continue
    # (a) determinism across interpreters
    only = case.get("only_part")
    if only in (None, "determinism"):
        for order, seed in (("reversed", "1"), ("interleaved", "4242")):
            try:
                res = subproc.run_receiver("names", {"programs": progs, "order": order}, hashseed=seed)
            except Exception as e:
                raise RuntimeError(f"receiver crashed: {e}")
            for pi, (a, b) in enumerate(zip(origin, res)):
                if a.get("skip") or a.get("error") or b is None or b.get("error") or b.get("skip"):
                    continue
                for key in ("root", "logical", "optimized", "keys"):
                    if key in a and key in b and a[key] != b[key]:
                        da = [x for x in a[key] if x not in b[key]][:3] if isinstance(a[key], list) else a[key]
                        db = [x for x in b[key] if x not in a[key]][:3] if isinstance(a[key], list) else b[key]
                        failures.append(Failure("names-differ-across-processes", f"program {pi} ({order}, PYTHONHASHSEED={seed}): {key} differ: origin {da} vs fresh interpreter {db}",
                                                extra={"bucket_hint": key, "program": progs[pi]}).record())
                        break
            classes.append("receiver:" + order)
    # (b) name <=> structure over all nodes (+ single-operand perturbations)
    if only in (None, "collisions"):
        by_name, by_S = {}, {}
        from dask_expr._core import Expr

        seen = set()
        nodes = []
        for label, e in exprs:
            for n in e.walk():
                if id(n) in seen:
                    continue
                seen.add(id(n))
                nodes.append((label, n))
        pert = []
        done = {}
        for label, n in nodes:
            cls = type(n)
            params = getattr(cls, "_parameters", [])
            for i, op in enumerate(n.operands):
                pname = params[i] if i < len(params) else f"*{i}"
                if isinstance(op, Expr) or pname == "_dataset_info_cache":
                    continue
                if done.get((cls.__name__, pname), 0) >= 3:
                    continue  # every (class, operand position) is perturbed a few times per batch
                p = perturb(op)
                if p is None:
                    continue
                try:
                    ops2 = list(n.operands)
                    ops2[i] = p
                    n2 = cls(*ops2)
                    nm = n2._name
                except Exception:
                    continue
                done[(cls.__name__, pname)] = done.get((cls.__name__, pname), 0) + 1
                nts.append(f"{cls.__name__}.{pname}")
                # expressions are singletons keyed by name: if the constructor hands back an instance that does
                # not carry the operand we asked for, two different expressions already share one name
                try:
                    if repr(S_literal(n2.operands[i])) != repr(S_literal(p)):
                        failures.append(Failure("name-collision", f"{cls.__name__}(..., {pname}={p!r}) returned the existing instance built with {pname}={op!r}: both have the name {nm!r}",
                                                extra={"bucket_hint": f"{cls.__name__}:{pname}"}).record())
                        continue
                except Exception:
                    pass
                pert.append((f"{label}:{cls.__name__}.{pname}", n2))
        for label, n in nodes + pert:
            try:
                nm, sk = n._name, Skey(n)
            except Exception:
                continue
            by_name.setdefault(nm, {})[sk] = (label, n)
            by_S.setdefault(sk, {})[nm] = (label, n)
        for nm, d in by_name.items():
            if len(d) > 1:
                (l1, n1), (l2, n2) = list(d.values())[:2]
                diff = _first_diff(n1, n2)
                failures.append(Failure("name-collision", f"two structurally different expressions share the name {nm!r}: {l1} vs {l2}; they differ in {diff}",
                                        extra={"bucket_hint": f"{type(n1).__name__}:{diff}"}).record())
        for sk, d in by_S.items():
            if len(d) > 1:
                names = list(d)[:2]
                (l1, n1) = d[names[0]]
                failures.append(Failure("same-expression-two-names", f"structurally identical {type(n1).__name__} expressions got names {names}", extra={"bucket_hint": type(n1).__name__}).record())
    return {"nontrivial": sorted(set(nts)) or False, "classes": classes, "failures": failures[:6], "sample": [interp.describe(p) for p in progs[:2]], "evaluations": max(1, len(exprs))}


def _first_diff(a, b):
    if type(a) is not type(b):
        return f"class {type(a).__name__} vs {type(b).__name__}"
    params = getattr(type(a), "_parameters", [])
    for i, (x, y) in enumerate(zip(a.operands, b.operands)):
        if repr(S_literal(x)) != repr(S_literal(y)):
            return f"operand {params[i] if i < len(params) else i}"
    return "operand count"


def shrink_candidates(case):
    b = case["batch"]
    if len(b) > 1:
        for p in b:
            yield {"batch": [p]}
        return
    from ..shrink import program_candidates

    for c in program_candidates(b[0]):
        yield {"batch": [c]}
