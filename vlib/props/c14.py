"""C14 — blockwise fusion only changes task granularity (DESIGN §3 C14)."""
from .. import gen, interp, plans, structure, templates
from ..compare import equiv
from ..runner import Failure

LEVEL = "exploration"
RULE = (
    "Hypothesis-generated programs from a 'blockwise DAG' profile (chains and diamonds of partition-wise operators, shared nodes, broadcast reductions, "
    "map_partitions, loc, blockwise segments between shuffles/joins/reductions) + templates; for EVERY SSA value: e0=optimize(fuse=False), e1=optimize(fuse=True) must report equal "
    "npartitions, divisions and schema, and every output partition i of e1 must equal partition i of e0 (same rows, same order, same index; multiset inside partitions "
    "whose row order the query leaves undefined). non-trivial = e1 contains a Fused node; distinct by (program hash, value id)"
)
ASSUMPTIONS = ["row order inside partitions produced by a disk shuffle is compared as a multiset"]
BUDGET_S = {"quick": 170, "thorough": 900}

W = {"assign": 4, "binop": 4, "binop_scalar": 3, "series_red_reuse": 3, "filter": 3, "filter_pred": 3, "where": 2, "col": 3, "cols": 3, "unary": 2, "map_partitions": 2.5, "fillna": 1.5,
     "astype": 1, "concat1": 2, "loc_slice": 1.5, "shuffle": 1.2, "merge": 1.5, "groupby_agg": 1.2, "repartition": 1.2, "partitions": 1.5, "reset_index": 1, "to_frame": 1, "cut": 0.7, "head": 0.7, "reduce": 2.5, "scalar_arith": 3, "scalar_binop": 3, "bcast_scalar": 4}
PROFILE_Q = gen.Profile("blockwise", weights=W, max_steps=7, max_rows=10)
PROFILE_T = gen.Profile("blockwise", weights=W, max_steps=12, max_rows=16, n_tables=(1, 3))


def systematic(tier):
    return templates.c01_cases(tier)


def strategy(tier):
    from hypothesis import strategies as st

    prof = PROFILE_Q if tier == "quick" else PROFILE_T
    return st.builds(lambda p, sh: dict(p, config={"shuffle": sh}), gen.programs(prof), st.sampled_from(["tasks", "tasks", "disk"]))


def n_random(tier):
    return 1600 if tier == "quick" else 10000


def check(case):
    prog = case
    failures = []
    classes = []
    nts = []
    from ..interp import case_hash

    h = case_hash(prog)
    with plans.config(prog.get("config")):
        pvals = interp.run_pandas(prog)
        flags = interp.static_flags(prog, pvals)
        try:
            dvals = interp.run_dask(prog)
        except Exception as e:
            return {"nontrivial": False, "classes": ["build_fails:" + type(e).__name__]}
        seen = set()
        for vid, v in dvals.items():
            if not hasattr(v, "expr"):
                continue
            fl = flags[vid]
            try:
                e0 = plans.optimize_until(v.expr, "simplified-physical")
                r0, p0, _, _, _ = plans.execute(e0)
            except Exception:
                classes.append("unfused_unavailable")
                continue
            try:
                e1 = plans.optimize_until(v.expr, "fused")
                r1, p1, _, _, _ = plans.execute(e1)
            except Exception as e:
                failures.append(Failure("fused-raises", f"value {vid}: the fused plan raised {type(e).__name__}: {e} (unfused plan computes)", exc=e, extra={"value": vid}).record())
                break
            # fusing an already fused plan again (nested groups) must not change anything either
            if not failures:
                try:
                    e2 = plans.optimize_until(e1, "fused")
                    nested = any(type(m).__name__ == "Fused" for e in e2.walk() if type(e).__name__ == "Fused" for m in e.exprs)
                    if e2._name != e1._name or nested:
                        r2, p2, _, _, _ = plans.execute(e2)
                        if len(p2) != len(p0):
                            failures.append(Failure("refused-npartitions", f"value {vid}: re-fused plan has {len(p2)} partitions, unfused {len(p0)}", extra={"bucket_hint": "refuse", "value": vid}).record())
                        else:
                            for i, (a, b) in enumerate(zip(p2, p0)):
                                d = equiv(a, b, order=fl.ordered or (prog.get("config") or {}).get("shuffle") != "disk", index=True, dtypes="exact")
                                if d is not None and not fl.ordered:
                                    d = equiv(a, b, order=False, index=fl.indexed, dtypes="exact")
                                if d is not None:
                                    failures.append(Failure("refused-partition-differs", f"value {vid}: partition {i} of the twice-fused plan differs from the unfused plan: {d}", extra={"bucket_hint": "refuse", "value": vid}).record())
                                    break
                        classes.append("refused_checked")
                except Exception as e:
                    failures.append(Failure("refuse-raises", f"value {vid}: fusing the fused plan again raised {type(e).__name__}: {e}", exc=e, extra={"value": vid}).record())
            has_fused = plans.has_class(e1, "Fused")
            if has_fused:
                nts.append(f"{h}:{vid}")
                for e in e1.walk():
                    if type(e).__name__ == "Fused":
                        if any(type(m).__name__ == "Fused" for m in e.exprs):
                            classes.append("nested_fused")
                        if any(d.npartitions == 1 and e.npartitions > 1 for d in e.dependencies()):
                            classes.append("fused_with_broadcast_dep")
            probs = []
            if e0.npartitions != e1.npartitions or len(p0) != len(p1):
                probs.append(("npartitions-changed", f"value {vid}: unfused {e0.npartitions}/{len(p0)} partitions, fused {e1.npartitions}/{len(p1)}"))
            elif tuple(map(repr, e0.divisions)) != tuple(map(repr, e1.divisions)):
                probs.append(("divisions-changed", f"value {vid}: unfused divisions {e0.divisions}, fused {e1.divisions}"))
            elif structure.meta_signature(e0._meta) != structure.meta_signature(e1._meta):
                probs.append(("schema-changed", f"value {vid}: unfused {structure.meta_signature(e0._meta)}, fused {structure.meta_signature(e1._meta)}"))
            else:
                for i, (a, b) in enumerate(zip(p1, p0)):
                    d = equiv(a, b, order=fl.ordered or (prog.get("config") or {}).get("shuffle") != "disk", index=True, dtypes="exact")
                    if d is not None and not fl.ordered:
                        d = equiv(a, b, order=False, index=fl.indexed, dtypes="exact")
                    if d is not None:
                        probs.append(("partition-differs", f"value {vid}: partition {i} of the fused plan differs from the unfused plan: {d}"))
                        break
            for kind_, detail in probs:
                if kind_ not in seen:
                    seen.add(kind_)
                    failures.append(Failure(kind_, detail, extra={"bucket_hint": kind_, "value": vid}).record())
            if failures:
                break
    classes += ["op:" + s["op"] for s in prog["steps"]]
    return {"nontrivial": sorted(set(nts)) or False, "classes": classes, "failures": failures, "sample": interp.describe(prog), "evaluations": 1}


def shrink_candidates(case):
    from ..shrink import program_candidates

    return program_candidates(case)
