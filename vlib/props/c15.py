"""C15 — planner caches are transparent: results are independent of session
history (DESIGN §3 C15).  Hypothesis rule-based state machine over a pool of
queries larger than every cache, with injected task failures, discards and
dataset rewrites; every observation is compared with the same query run
alone in a FRESH interpreter."""
import gc
import hashlib
import json
import os
import pickle
import shutil
import subprocess
import sys
import time
import warnings

import numpy as np
import pandas as pd

from .. import VERIF_ROOT, plans, udfs
from ..compare import equiv
from ..runner import Failure

LEVEL = "exploration"
RULE = (
    "Hypothesis RuleBasedStateMachine (seeded with VERIF_SEED) over a fixed pool of 73 queries: 14 set_index and 8 sort_values variants on two frames (divisions LRU, capacity 10), 14 "
    "(npartitions, sort) variants of ONE pandas object and 6 repartition(pdf, divisions) variants (per-frame division cache, capacity 10), repartition(partition_size) variants, parquet "
    "reads of 2 datasets with both readers (plan / statistics / dataset-info caches) incl. projections, filters and len, and ordinary queries sharing sub-expressions with them. Rules: build, "
    "optimize, keep an optimized plan and observe it later, compute, observe divisions, len, discard + gc.collect(), compute with an injected task failure (must surface), rewrite a parquet dataset under the same path, re-optimize. Oracle: "
    "after every observing step the observation (result, divisions, npartitions, len, optimized plan name) equals the one obtained by running that query ALONE in a fresh interpreter; after a "
    "rewrite, reads equal the new contents. Plus hand-written histories (12 set_index then compute the first, rewrite-then-read, failure-then-compute). non-trivial = between the first planning of "
    "a query and the observation >= 11 other cache-keyed queries were planned, or a failure / rewrite / discard happened; distinct by (query, kind of disturbance)"
)
ASSUMPTIONS = ["fresh-interpreter references are computed once per query and cached for the run", "disk-shuffle store tokens are excluded from plan-name comparison (names of expressions only)"]
BUDGET_S = {"quick": 200, "thorough": 900}
SYSTEMATIC_BUDGET_FRACTION = 1.0
NO_FRESH_CONFIRM = True
MINIMISE_EVALS = {"quick": 0, "thorough": 0}

N = 40


def frame(which):
    rs = np.random.RandomState(7 + which)
    rid = np.arange(N)
    return pd.DataFrame({"a": rs.permutation(N), "b": rs.permutation(N) % 9, "c": (rs.permutation(N) * 2.5 + 0.1).round(1),  # floats without ties: the order of equal sort keys is unspecified "d": rs.permutation(N)[::-1].copy(), "e": rs.permutation(N) % 5,
                         "s": pd.array(["xyzuv"[i % 5] for i in rs.permutation(N)], dtype="string[pyarrow]"), "rid": rid})


def dataset_rows(version):
    """Every version has the same shape and the same multiset of values per column (only permuted / shifted), so a
    rewrite usually keeps the byte size of every file: a cache keyed on (path, size) alone goes stale."""
    rs = np.random.RandomState(100 + version)
    n = 12
    base_v = np.array([0.5, 1.5, 2.5, 3.5, 4.5, 5.5, 6.5, 7.5, 8.5, 9.5, 2.25, 7.75])
    return pd.DataFrame({"k": rs.permutation(np.arange(n) % 4), "v": rs.permutation(base_v), "rid": np.arange(n) + 1000 * (version % 7)}, index=pd.Index(np.arange(n) + 3 * (version % 7), name="ix"))


def pool():
    """query descriptors: (id, builder(ctx) -> collection, ordered)"""
    Q = []

    def add(qid, fn, ordered=False, cache=True):
        Q.append({"id": qid, "fn": fn, "ordered": ordered, "cache_keyed": cache})

    for col in ("a", "b", "c", "d", "e", "rid", "s"):
        for fi in (0, 1):
            add(f"set_index-{col}-f{fi}", (lambda col, fi: lambda c: c.df(fi, 4).set_index(col))(col, fi))
    for col, asc in (("a", True), ("a", False), ("c", True), ("d", False)):
        for fi in (0, 1):
            add(f"sort-{col}-{asc}-f{fi}", (lambda col, asc, fi: lambda c: c.df(fi, 3).sort_values(col, ascending=asc))(col, asc, fi), ordered=True)
    for npart in (1, 2, 3, 4, 5, 6, 7):
        for sort in (True, False):
            add(f"from_pandas-{npart}-{sort}", (lambda npart, sort: lambda c: c.df(0, npart, sort).assign(t=1))(npart, sort), ordered=True)
    for divs in ([0, 39], [0, 10, 39], [0, 5, 20, 39], [0, 20, 39], [0, 13, 26, 39], [0, 1, 2, 39]):
        add(f"pdf-divisions-{divs}", (lambda divs: lambda c: c.repartition_pdf(divs))(divs), ordered=True)
    for size in (600, 1500, 4000):
        add(f"repartition-size-{size}", (lambda size: lambda c: c.df(1, 5).repartition(partition_size=size))(size), ordered=True)
    for reader in ("fsspec", "arrow"):
        for ds in (0, 1):
            add(f"pq-{reader}-{ds}-full", (lambda reader, ds: lambda c: c.read(ds, reader))(reader, ds))
            add(f"pq-{reader}-{ds}-proj-filter", (lambda reader, ds: lambda c: (lambda r: r[r.v > 3][["rid", "k"]])(c.read(ds, reader)))(reader, ds))
            add(f"pq-{reader}-{ds}-sum", (lambda reader, ds: lambda c: c.read(ds, reader).v.sum())(reader, ds))
            add(f"pq-{reader}-{ds}-div", (lambda reader, ds: lambda c: c.read(ds, reader, calculate_divisions=True))(reader, ds), ordered=True)
            add(f"pq-{reader}-{ds}-div-loc", (lambda reader, ds: lambda c: c.read(ds, reader, calculate_divisions=True).loc[5:11])(reader, ds), ordered=True)
            add(f"pq-{reader}-{ds}-len-proj", (lambda reader, ds: lambda c: c.read(ds, reader)[["k"]])(reader, ds))
    add("shared-sub-1", lambda c: (lambda d: d[d.a > 5].b.sum() + d.c.max())(c.df(0, 4)), cache=False)
    add("shared-sub-2", lambda c: (lambda d: d.assign(z=d.a - d.a.mean())[["z", "rid"]])(c.df(0, 4)), ordered=True, cache=False)
    add("groupby", lambda c: c.df(1, 4).groupby("e").c.mean(), cache=False)
    add("merge", lambda c: c.df(0, 3).merge(c.df(1, 2)[["rid", "c"]], on="rid", shuffle_method="tasks"), cache=False)
    return Q


_POOL = None


def get_pool():
    global _POOL
    if _POOL is None:
        _POOL = pool()
    return _POOL


class Ctx:
    """Everything a query builder needs.  The pandas objects are created once per session so that
    per-object caches are really shared between queries."""

    def __init__(self, root):
        self.root = root
        self.frames = {0: frame(0), 1: frame(1)}
        self.versions = {0: 0, 1: 0}

    def df(self, fi, npartitions, sort=True):
        import dask_expr as dx

        return dx.from_pandas(self.frames[fi], npartitions=npartitions, sort=sort)

    def repartition_pdf(self, divs):
        import dask_expr as dx

        return dx.repartition(self.frames[0], divisions=list(divs))

    def path(self, ds):
        return os.path.join(self.root, f"ds{ds}")

    def write(self, ds, version):
        import dask_expr as dx

        self.versions[ds] = version
        p = self.path(ds)
        if os.path.exists(p):
            shutil.rmtree(p)
        dx.from_pandas(dataset_rows(version + 10 * ds), npartitions=3).to_parquet(p)

    def read(self, ds, reader, **extra):
        import dask_expr as dx

        kw = {"filesystem": "arrow"} if reader == "arrow" else {}
        return dx.read_parquet(self.path(ds), **kw, **extra)


def observe(coll, what):
    if what == "compute":
        return coll.compute()
    if what == "divisions":
        return (repr(tuple(coll.divisions)), coll.npartitions)
    if what == "len":
        return len(coll)
    if what == "plan":
        return coll.optimize()._name
    raise ValueError(what)


WHATS = ["compute", "divisions", "len", "plan"]


# ----------------------------------------------------------------- fresh-interpreter references


def _ref_dir():
    sha = subprocess.run(["git", "-C", "/repo", "rev-parse", "HEAD"], capture_output=True, text=True).stdout.strip()[:10]
    dirty = hashlib.sha1(subprocess.run(["git", "-C", "/repo", "diff"], capture_output=True, text=True).stdout.encode()).hexdigest()[:8]
    me = hashlib.sha1(open(__file__, "rb").read()).hexdigest()[:8]  # the pool / datasets are defined in this file
    d = os.path.join(VERIF_ROOT, ".work", f"c15-refs-{sha}-{dirty}-{me}")
    os.makedirs(d, exist_ok=True)
    return d


def reference(qid, versions=(0, 0)):
    """observations of query qid when it is the ONLY thing a fresh interpreter does"""
    key = hashlib.sha1(f"{qid}|{versions}".encode()).hexdigest()[:16]
    f = os.path.join(_ref_dir(), key + ".pkl")
    if not os.path.exists(f):
        tmp = f + f".{os.getpid()}.tmp"
        env = dict(os.environ, PYTHONHASHSEED="0", PYTHONDONTWRITEBYTECODE="1")
        p = subprocess.run([sys.executable, "-m", "vlib.props.c15", "ref", qid, json.dumps(list(versions)), tmp], cwd=VERIF_ROOT, env=env, capture_output=True, text=True, timeout=600)
        if p.returncode != 0 or not os.path.exists(tmp):
            raise RuntimeError(f"reference run failed for {qid}: {p.stderr[-800:]}")
        os.replace(tmp, f)
    with open(f, "rb") as fh:
        return pickle.load(fh)


def _ref_main(qid, versions, out):
    import vlib

    vlib.setup_dask()
    root = os.path.join(VERIF_ROOT, ".work", f"c15-ref-{os.getpid()}")
    os.makedirs(root, exist_ok=True)
    try:
        ctx = Ctx(root)
        for ds in (0, 1):
            ctx.write(ds, versions[ds])
        q = next(x for x in get_pool() if x["id"] == qid)
        res = {}
        with warnings.catch_warnings():
            warnings.simplefilter("ignore")
            for what in ("plan", "divisions", "len", "compute"):
                try:
                    coll = q["fn"](ctx)  # built afresh for every observation: each one is a first contact
                    res[what] = ("ok", observe(coll, what))
                except Exception as e:
                    res[what] = ("error", f"{type(e).__name__}: {e}")
        with open(out, "wb") as f:
            pickle.dump(res, f)
    finally:
        shutil.rmtree(root, ignore_errors=True)


# ----------------------------------------------------------------- session (shared by the machine and by replays)


class Session:
    def __init__(self):
        import vlib

        vlib.setup_dask()
        self.root = os.path.join(os.environ.get("VERIF_WORK", os.path.join(VERIF_ROOT, ".work")), f"c15-{os.getpid()}-{int(time.time() * 1000) % 10**8}")
        os.makedirs(self.root, exist_ok=True)
        self.ctx = Ctx(self.root)
        for ds in (0, 1):
            self.ctx.write(ds, 0)
        self.live = {}
        self.opt = {}
        self.first_planned = {}  # qid -> counter value at first planning
        self.planned_counter = 0
        self.disturbed = {}  # qid -> set of disturbance kinds since first planning
        self.history = []
        self.ref_unavailable = 0
        self.nontrivial = set()
        self.failures = []

    def close(self):
        self.live.clear()
        self.opt.clear()
        shutil.rmtree(self.root, ignore_errors=True)

    def _q(self, i):
        P = get_pool()
        return P[i % len(P)]

    def _get(self, q):
        qid = q["id"]
        if qid not in self.live:
            self.live[qid] = q["fn"](self.ctx)
            if qid not in self.first_planned:
                self.first_planned[qid] = self.planned_counter
            if q["cache_keyed"]:
                self.planned_counter += 1
        return self.live[qid]

    def _disturb(self, kind):
        for qid in self.first_planned:
            self.disturbed.setdefault(qid, set()).add(kind)

    def step(self, name, *args):
        self.history.append([name, list(args)])
        with warnings.catch_warnings():
            warnings.simplefilter("ignore")
            getattr(self, "do_" + name)(*args)

    # ---- rules
    def do_build(self, i):
        q = self._q(i)
        try:
            self._get(q)
        except Exception as e:
            # building a query must not depend on the history either
            try:
                ref = reference(q["id"], (self.ctx.versions[0], self.ctx.versions[1]))["plan"]
            except Exception:
                self.ref_unavailable += 1
                return
            if ref[0] == "error":
                return
            self.failures.append(Failure("history-dependent", f"building {q['id']} after {len(self.history)} steps raised {type(e).__name__}: {e}; alone in a fresh interpreter it is planned", exc=e,
                                         extra={"bucket_hint": f"build:{q['id'].split('-')[0]}", "history": list(self.history)}).record())
            raise AssertionError(self.failures[-1]["detail"])

    def do_observe(self, i, w):
        q = self._q(i)
        what = WHATS[w % len(WHATS)]
        qid = q["id"]
        try:
            ref = reference(qid, (self.ctx.versions[0], self.ctx.versions[1]))[what]
        except Exception:
            self.ref_unavailable += 1  # (a fresh interpreter could not be started / timed out: no verdict for this step)
            return
        try:
            coll = self._get(q)
            got = ("ok", observe(coll, what))
        except Exception as e:
            got = ("error", f"{type(e).__name__}: {e}")
            self._exc = e
        evicted = self.planned_counter - self.first_planned.get(qid, self.planned_counter) >= 11
        kinds = set(self.disturbed.get(qid, ())) | ({"evicted"} if evicted else set())
        for k in kinds:
            self.nontrivial.add(f"{qid}:{what}:{k}")
        d = None
        if ref[0] == "error" and got[0] == "error":
            return
        if what == "plan" and qid.startswith("pq-"):
            return  # the name of a parquet read contains the path and file checksums; the reference run has its own directory
        if ref[0] != got[0]:
            d = f"in the session: {got[0]} {str(got[1])[:200]}; alone in a fresh interpreter: {ref[0]} {str(ref[1])[:200]}"
        elif what == "compute":
            d = equiv(got[1], ref[1], order=q["ordered"], index=True, dtypes="exact")
        elif got[1] != ref[1]:
            d = f"in the session {got[1]!r}; alone in a fresh interpreter {ref[1]!r}"
        if d is not None:
            exc = getattr(self, "_exc", None) if got[0] == "error" else None
            self.failures.append(Failure("history-dependent", f"{what} of {qid} after {len(self.history)} steps (disturbances: {sorted(kinds)}): {d}", exc=exc,
                                         extra={"bucket_hint": f"{what}:{qid.split('-')[0]}", "history": list(self.history)}).record())
            raise AssertionError(self.failures[-1]["detail"])

    def do_optimize(self, i):
        try:
            self._get(self._q(i)).optimize()
        except Exception:
            pass

    def do_keep_optimized(self, i):
        """the user holds on to an optimized collection (its plan was made while the caches looked different)"""
        q = self._q(i)
        try:
            self.opt[q["id"]] = (self._get(q).optimize(), self.planned_counter, (self.ctx.versions[0], self.ctx.versions[1]))
        except Exception:
            pass

    def do_observe_optimized(self, i, w):
        q = self._q(i)
        qid = q["id"]
        if qid not in self.opt:
            return
        coll, planned_at, versions = self.opt[qid]
        if qid.startswith("pq-") and versions != (self.ctx.versions[0], self.ctx.versions[1]):
            self.opt.pop(qid)  # a plan over files that were replaced since is the user's to drop
            return
        what = ["compute", "divisions", "len"][w % 3]
        try:
            ref = reference(qid, versions)[what]
        except Exception:
            self.ref_unavailable += 1
            return
        try:
            got = ("ok", observe(coll, what))
            exc = None
        except Exception as e:
            got = ("error", f"{type(e).__name__}: {e}")
            exc = e
        kinds = set(self.disturbed.get(qid, ())) | ({"evicted"} if self.planned_counter - planned_at >= 11 else set())
        for k in kinds:
            self.nontrivial.add(f"{qid}:kept-optimized:{what}:{k}")
        if ref[0] == "error" and got[0] == "error":
            return
        d = None
        if ref[0] != got[0]:
            d = f"in the session: {got[0]} {str(got[1])[:200]}; alone in a fresh interpreter: {ref[0]} {str(ref[1])[:200]}"
        elif what == "compute":
            d = equiv(got[1], ref[1], order=q["ordered"], index=True, dtypes="exact")
        elif what == "len" and got[1] != ref[1]:
            d = f"in the session {got[1]!r}; alone in a fresh interpreter {ref[1]!r}"
        if d is not None:
            self.failures.append(Failure("history-dependent", f"{what} of the kept optimized plan of {qid} after {len(self.history)} steps (disturbances: {sorted(kinds)}): {d}", exc=exc,
                                         extra={"bucket_hint": f"kept:{what}:{qid.split('-')[0]}", "history": list(self.history)}).record())
            raise AssertionError(self.failures[-1]["detail"])

    def do_discard(self, i):
        self.live.pop(self._q(i)["id"], None)
        gc.collect()
        self._disturb("discard")

    def do_fail(self, i):
        q = self._q(i)
        try:
            coll = self._get(q)
        except Exception:
            return
        if not hasattr(coll, "map_partitions") or "rid" not in getattr(coll, "columns", []):
            return
        marker = int(2 + i % 7) if not q["id"].startswith("pq") else 1000 * 0 + 1
        try:
            coll.map_partitions(udfs.raise_in_partition, marker=marker).compute()
            surfaced = False
        except RuntimeError as e:
            surfaced = "injected failure" in str(e)
        except Exception:
            surfaced = True
        self._disturb("failure")
        # (if the marker row does not exist nothing is raised; that is fine)

    def do_rewrite(self, ds, version):
        ds = ds % 2
        version = 1 + version % 3
        for qid in [k for k in self.live if k.startswith("pq-")]:
            self.live.pop(qid)  # collections built on the old files are the user's to drop
        self.ctx.write(ds, version)
        self._disturb("rewrite")
        # a re-read by the same path must show the new contents
        exp = dataset_rows(version + 10 * ds)
        for reader in ("fsspec", "arrow"):
            try:
                got = self.ctx.read(ds, reader).compute()
            except Exception as e:
                self.failures.append(Failure("stale-after-rewrite", f"reading dataset {ds} with {reader} after it was rewritten raised {type(e).__name__}: {e}", exc=e, extra={"history": list(self.history)}).record())
                raise AssertionError(self.failures[-1]["detail"])
            d = equiv(got.sort_values("rid"), exp.sort_values("rid"), order=True, index=True, dtypes="kindpromo")
            if d is None:
                try:
                    rd = self.ctx.read(ds, reader, calculate_divisions=True)
                    lo, hi = int(exp.index[2]), int(exp.index[8])
                    gl = rd.loc[lo:hi].compute()
                    d = equiv(gl.sort_values("rid"), exp.loc[lo:hi].sort_values("rid"), order=True, index=True, dtypes="kindpromo")
                    if d is not None:
                        d = f"loc[{lo}:{hi}] with calculate_divisions=True (divisions {rd.divisions}): {d}"
                    elif len(self.ctx.read(ds, reader)) != len(exp):
                        d = f"len() reports {len(self.ctx.read(ds, reader))}, new contents have {len(exp)} rows"
                except Exception as e:
                    d = f"calculate_divisions=True / loc after rewrite raised {type(e).__name__}: {e}"
            self.nontrivial.add(f"pq-{reader}-{ds}:reread:rewrite")
            if d is not None:
                self.failures.append(Failure("stale-after-rewrite", f"dataset {ds} re-read with {reader} after rewrite (version {version}) does not show the new contents: {d}",
                                             extra={"bucket_hint": "rewrite:" + reader, "history": list(self.history)}).record())
                raise AssertionError(self.failures[-1]["detail"])


def run_history(history):
    s = Session()
    try:
        for name, args in history:
            try:
                s.step(name, *args)
            except AssertionError:
                break
        return s.failures, s.nontrivial
    finally:
        s.close()


HAND = [
    [["keep_optimized", [0]]] + [["optimize", [i]] for i in range(1, 14)] + [["observe_optimized", [0, 0]], ["observe_optimized", [0, 1]], ["observe", [0, 0]]],
    [["keep_optimized", [14]], ["keep_optimized", [16]]] + [["keep_optimized", [i]] for i in range(0, 13)] + [["observe_optimized", [14, 0]], ["observe_optimized", [16, 0]], ["observe_optimized", [3, 0]], ["observe_optimized", [12, 0]]],
    [["keep_optimized", [36]], ["keep_optimized", [22]]] + [["optimize", [i]] for i in range(23, 42)] + [["observe_optimized", [36, 0]], ["observe_optimized", [22, 0]]],
    [["build", [i]] for i in range(0, 14)] + [["observe", [0, 0]], ["observe", [1, 1]], ["observe", [0, 3]]],
    [["observe", [0, 0]]] + [["optimize", [i]] for i in range(1, 22)] + [["observe", [0, 0]], ["observe", [0, 1]]],
    [["observe", [22, 0]]] + [["build", [i]] for i in range(23, 36)] + [["observe", [22, 0]], ["observe", [22, 1]], ["observe", [30, 0]]],
    [["observe", [45, 0]], ["observe", [48, 0]], ["observe", [49, 1]], ["observe", [60, 0]], ["observe", [61, 0]], ["observe", [60, 1]], ["rewrite", [0, 0]], ["observe", [45, 0]], ["observe", [48, 0]], ["observe", [49, 0]],
     ["observe", [60, 1]], ["observe", [61, 0]], ["observe", [62, 2]], ["rewrite", [0, 1]], ["observe", [48, 1]], ["observe", [61, 0]], ["observe", [60, 0]], ["rewrite", [0, 2]], ["observe", [61, 0]], ["observe", [49, 0]]],
    [["build", [3]], ["fail", [3]], ["observe", [3, 0]], ["fail", [22]], ["observe", [22, 0]], ["discard", [3]], ["observe", [3, 0]], ["observe", [3, 1]]],
    [["observe", [36 + j, 0]] for j in range(6)] + [["observe", [36, 1]], ["observe", [41, 0]]],
    [["observe", [42 + j, 0]] for j in range(3)] + [["observe", [42 + j, 2]] for j in range(3)],
]


def systematic(tier):
    n = 24 if tier == "quick" else 240
    return [{"hand": i} for i in range(len(HAND))] + [{"machine_seed": i} for i in range(n)]


def check(case):
    if "history" in case or "hand" in case:
        hist = case["history"] if "history" in case else HAND[case["hand"]]
        fails, nt = run_history(hist)
        return {"failures": fails, "nontrivial": sorted(nt) or False, "classes": ["hand-written" if "hand" in case else "replay"], "sample": hist[:6], "evaluations": len(hist)}
    # a Hypothesis state machine run
    import hypothesis
    from hypothesis import HealthCheck, Phase, settings, strategies as st
    from hypothesis.stateful import RuleBasedStateMachine, rule, run_state_machine_as_test

    seed = int(os.environ.get("VERIF_SEED", "1") or 1) * 100003 + case["machine_seed"]
    collected = {"failures": [], "nontrivial": set(), "steps": 0, "sample": None}
    npool = len(get_pool())

    class Machine(RuleBasedStateMachine):
        def __init__(self):
            super().__init__()
            self.s = Session()

        @rule(i=st.integers(0, npool - 1))
        def build(self, i):
            self.s.step("build", i)

        @rule(i=st.integers(0, npool - 1), w=st.integers(0, 3))
        def observe(self, i, w):
            self.s.step("observe", i, w)

        @rule(i=st.integers(0, npool - 1))
        def optimize(self, i):
            self.s.step("optimize", i)

        @rule(i=st.integers(0, npool - 1))
        def keep_optimized(self, i):
            self.s.step("keep_optimized", i)

        @rule(i=st.integers(0, npool - 1), w=st.integers(0, 2))
        def observe_optimized(self, i, w):
            self.s.step("observe_optimized", i, w)

        @rule(i=st.integers(0, npool - 1))
        def discard(self, i):
            self.s.step("discard", i)

        @rule(i=st.integers(0, npool - 1))
        def fail(self, i):
            self.s.step("fail", i)

        @rule(ds=st.integers(0, 1), version=st.integers(0, 2))
        def rewrite(self, ds, version):
            self.s.step("rewrite", ds, version)

        def teardown(self):
            collected["nontrivial"] |= self.s.nontrivial
            collected["steps"] += len(self.s.history)
            if self.s.failures:
                collected["failures"] = list(self.s.failures)  # the last (most shrunk) failing run wins
            if collected["sample"] is None:
                collected["sample"] = list(self.s.history[:8])
            self.s.close()

    try:
        run_state_machine_as_test(
            hypothesis.seed(seed)(Machine),
            settings=settings(max_examples=2, stateful_step_count=45, deadline=None, database=None, report_multiple_bugs=False, suppress_health_check=list(HealthCheck),
                              phases=[Phase.generate], print_blob=False),
        )
    except AssertionError:
        pass
    except Exception as e:
        if not collected["failures"]:
            raise
    fails = collected["failures"][-1:]
    if fails and fails[0].get("history"):
        # own bounded minimiser over the rule sequence (Hypothesis' shrinker has no budget knob)
        hist = fails[0]["history"]
        bucket = fails[0].get("bucket_hint")
        budget = 25
        i = 0
        while i < len(hist) - 1 and budget > 0:
            cand = hist[:i] + hist[i + 1:]
            budget -= 1
            f2, _ = run_history(cand)
            if f2 and f2[-1].get("bucket_hint") == bucket:
                hist = cand
                fails = f2[-1:]
            else:
                i += 1
    return {"failures": fails, "nontrivial": sorted(collected["nontrivial"]) or False, "classes": ["machine"], "sample": collected["sample"], "evaluations": max(1, collected["steps"])}


def shrink_candidates(case):
    return []


def replay_case(case, rec):
    """the replay file holds the (shrunk) rule sequence, executed without Hypothesis"""
    return {"history": rec["history"]} if rec.get("history") else case


if __name__ == "__main__":
    if sys.argv[1] == "ref":
        _ref_main(sys.argv[2], json.loads(sys.argv[3]), sys.argv[4])
