"""C06 — reported partition structure (npartitions, divisions, lengths) is
truthful (DESIGN §3 C06)."""
from .. import gen, interp, plans, structure, templates
from ..runner import Failure

LEVEL = "exploration"
RULE = (
    "Hypothesis-generated programs from a 'structure' profile (all index kinds; loc, set_index, sort_values, index joins, concat, repartition, partitions, head/tail, "
    "persist/delayed/legacy re-imports) + templates + systematic shift(periods, freq=fixed/relative/anchored offset) programs over datetime divisions straddling month ends; for EVERY SSA value of the program and stages {logical, simplified-logical, physical, fused}: the plan is executed "
    "with the all-keys executor and (1) len(divisions)==npartitions+1, (2) computed partitions == reported npartitions of the stage plan and of its lowering, "
    "(3) known divisions are sorted and every partition's index values lie in [d_i, d_i+1) (last closed), (4) len(v), shape, size and per-partition Lengths(...) "
    "equal the computed data. non-trivial = an optimized stage reports known divisions with >= 2 partitions, or a length is answered without reading data; "
    "distinct by (program hash, value id)"
)
ASSUMPTIONS = ["divisions handed to from_map/from_delayed by the layouts are correct by construction (user-asserted divisions are exempt in the property)",
               "Lengths is observed through Lengths(expr).optimize() as the repository's tests do; skipped (counted) if that path is unavailable"]
BUDGET_S = {"quick": 170, "thorough": 900}

W = {"loc_slice": 2.5, "set_index": 2.5, "sort_values": 1.5, "merge_index": 2.5, "concat0": 2, "concat1": 1.5, "repartition": 2.5, "partitions": 2.5, "head": 2, "cut": 1.5,
     "index_of": 1.5, "filter_pred": 2, "shift": 1, "cum": 1, "reset_index": 1, "merge": 1.5, "groupby_agg": 1.5, "reduce": 1.0, "map_partitions": 1,
     "cum_frame": 1.0, "rolling": 0.8, "mode": 0.8, "value_counts": 0.8, "unique": 0.8, "frame_nunique": 0.5, "loc_list": 1.5, "merge_lr": 1.0, "combine_first": 0.8, "map_overlap": 0.8}
PROFILE_Q = gen.Profile("structure", weights=W, max_steps=5, max_rows=10)
PROFILE_T = gen.Profile("structure", weights=W, max_steps=9, max_rows=16, n_tables=(1, 3))
PID = "C06"


FREQS = ["1D", "td:36h", "do:days=2", "do:months=1", "do:years=1", "do:day=5", "do:weekday=0", "do:months=1,day=31", "MS", "W"]
DT_VALUES = [[0, 0, 1, 2, 2, 3, 5, 5], [26, 26, 27, 28, 28, 29, 31, 31], [25, 26, 27, 28, 29, 30, 56, 57]]  # days after 2000-01-03: the last two straddle Jan 29..31 / Feb 29


def shift_freq_cases(tier):
    """shift(periods, freq=offset) of frames, series and indexes with known datetime divisions: fixed offsets move the divisions,
    relative or anchored ones (months, replace-day, weekday, aliases) are not monotonic and must not report shifted divisions (seeded change C06-c)"""
    out = []
    layouts = [l for l in templates.LAYOUTS_A if l.get("known") or l["kind"] == "from_pandas"] + [{"kind": "from_pandas", "npartitions": 4, "sort": True}]
    for vi, vals in enumerate(DT_VALUES):
        for li, lay in enumerate(layouts):
            for fi, fq in enumerate(FREQS):
                for periods in (1, -1, 2):
                    if tier == "quick" and (vi + li + fi + periods) % 2:
                        continue
                    steps = [templates.S("v1", "shift", ["t0"], f="shift", periods=periods, freq=fq),
                             templates.S("v2", "col", ["t0"], col="f"),
                             templates.S("v3", "shift", ["v2"], f="shift", periods=periods, freq=fq)]
                    out.append({"tables": [templates.table("t0", templates.ROWS_A, index={"kind": "dt", "name": "idx", "values": vals}, layout=lay)],
                                "steps": steps, "out": ["v1", "v3"], "config": {"shuffle": "tasks"}, "template": f"shift-freq:{fq}"})
    return out


def systematic(tier):
    m = templates.matrix_cases(tier)
    return templates.c01_cases(tier) + (m if tier == "thorough" else m[::2]) + shift_freq_cases(tier)


def strategy(tier):
    from hypothesis import strategies as st

    prof = PROFILE_Q if tier == "quick" else PROFILE_T
    return st.builds(lambda p, sh: dict(p, config={"shuffle": sh}), gen.programs(prof), st.sampled_from(["tasks", "tasks", "disk"]))


def n_random(tier):
    return 1000 if tier == "quick" else 6000


def check(case):
    prog = case
    failures = []
    classes = []
    nts = []
    from ..interp import case_hash

    h = case_hash(prog)
    with plans.config(prog.get("config")):
        seen_fail = set()
        flags = interp.static_flags(prog)
        for vid, stage, se, low, res, parts, coll in structure.observe(prog):
            if se is None:
                classes.append("stage_unavailable")
                continue
            where = f"value {vid} stage {stage}"
            probs = []
            for label, e in (("plan", se), ("lowered", low)):
                try:
                    divs = tuple(e.divisions)
                    npart = e.npartitions
                except Exception as ex:
                    probs.append(("divisions-raise", f"{where} {label}: {type(ex).__name__}: {ex}"))
                    continue
                cmp_parts = parts
                if label == "plan" and npart != len(parts):
                    # some expressions (Repartition by count) define their divisions as those of their *optimized* form: the reported
                    # structure then describes what the remaining optimizer stages compute, not the direct lowering of this node
                    try:
                        alt = plans.execute(plans.optimize_until(se, "fused"))[1]
                        if len(alt) == npart:
                            cmp_parts = alt
                            classes.append("structure_of_optimized_form")
                    except Exception:
                        pass
                if npart != len(cmp_parts):
                    probs.append(("npartitions-mismatch", f"{where} {label}: reports npartitions={npart} but {len(cmp_parts)} partitions are computed"))
                probs += structure.check_divisions(divs, cmp_parts, f"{where} {label}")
                if stage != "logical" and divs and divs[0] is not None and len(parts) >= 2:
                    nts.append(f"{h}:{vid}")
            if stage == "logical" and flags[vid].defined:
                # collection-level reports (skipped when several results satisfy the query:
                # len() is answered by the optimized plan, the partitions here by the un-optimized one)
                try:
                    nref = len(parts)
                    if coll.npartitions != nref:
                        try:
                            nref = len(plans.execute(coll.optimize().expr)[1])  # what compute() / to_delayed() run
                        except Exception:
                            pass
                    if coll.npartitions != nref or len(coll.divisions) != nref + 1:
                        probs.append(("npartitions-mismatch", f"{where}: collection reports npartitions={coll.npartitions}, {len(coll.divisions)} divisions; computed {nref} partitions"))
                except Exception as ex:
                    probs.append(("divisions-raise", f"{where}: {type(ex).__name__}: {ex}"))
                kind = interp.O.kind_of(res) if not hasattr(res, "ndim") or res.ndim else "scalar"
                if hasattr(res, "__len__") and not isinstance(res, (str, bytes)) and hasattr(coll, "__len__"):
                    try:
                        n = len(coll)
                        if n != len(res):
                            probs.append(("len-mismatch", f"{where}: len() reports {n}, computed result has {len(res)} rows"))
                        from dask_expr._expr import Lengths, Literal
                        from dask_expr._reductions import Len

                        lopt = Len(coll.expr).optimize()
                        if isinstance(lopt, Literal) or not any(type(x).__name__.startswith(("FromPandas", "FromMap", "FromDelayed", "FromGraph")) for x in lopt.walk()):
                            nts.append(f"{h}:{vid}:len")
                            classes.append("len_from_metadata")
                        try:
                            if not flags[vid].layout:
                                raise LookupError("partition layout chosen by an algorithm: per-partition lengths of the optimized plan are not comparable")
                            L = Lengths(coll.expr).optimize()
                            lens = L.operand("value") if isinstance(L, Literal) else plans.execute(L)[0]
                            base_parts = parts
                            if list(lens) != [len(p) for p in base_parts]:
                                probs.append(("lengths-mismatch", f"{where}: per-partition lengths {list(lens)} != computed {[len(p) for p in base_parts]}"))
                            classes.append("lengths_checked")
                        except Exception:
                            classes.append("lengths_unavailable")
                        if hasattr(coll, "size") and hasattr(res, "size") and kind in ("frame", "series"):
                            sz = coll.size.compute()
                            if int(sz) != int(res.size):
                                probs.append(("size-mismatch", f"{where}: size reports {sz}, computed {res.size}"))
                            if kind == "frame":
                                sh = coll.shape
                                rows = sh[0].compute() if hasattr(sh[0], "compute") else sh[0]
                                if (int(rows), sh[1]) != tuple(res.shape):
                                    probs.append(("shape-mismatch", f"{where}: shape reports {(rows, sh[1])}, computed {res.shape}"))
                    except Exception as ex:
                        probs.append(("len-raises", f"{where}: len()/shape/size raised {type(ex).__name__}: {ex}"))
            for kind_, detail in probs:
                if kind_ in seen_fail:
                    continue
                seen_fail.add(kind_)
                failures.append(Failure(kind_, detail, stage=stage, extra={"bucket_hint": kind_, "value": vid}).record())
    classes += ["op:" + s["op"] for s in prog["steps"]]
    return {"nontrivial": sorted(set(nts)) or False, "classes": classes, "failures": failures, "sample": interp.describe(prog), "evaluations": 1}


def shrink_candidates(case):
    from ..shrink import program_candidates

    return program_candidates(case)
