"""C10 — execution knobs change performance only, never results (DESIGN §3 C10)."""
import itertools

import numpy as np
import pandas as pd

from .. import plans
from ..compare import equiv, is_sorted_by
from ..runner import Failure

LEVEL = "exploration"
RULE = (
    "knob grid per query family: reductions (sum/mean/min/max/var/std/sem/count/idxmin/idxmax/any/all/nunique/mode/nlargest/nsmallest/cov/corr on a Series and a frame) split_every in {False,2,3,4,8}; groupby (1-2 keys; sum/mean/count/var/nunique/min/size/agg-dict) split_every x split_out in {1,2,3,True} x sort in "
    "{None,True,False} x shuffle_method in {None,tasks,disk}; unique/drop_duplicates/value_counts/nunique split_out x split_every x shuffle_method; merge (inner/left/right/outer) broadcast in "
    "{None,True,False,0.1,0.9,3.0} x npartitions hint in {None,2,7} x shuffle_method with (n_left,n_right) in {(2,17),(20,3),(3,3),(1,5),(8,8),(17,2)}; shuffle/sort_values/set_index max_branch in 2..8 x "
    "npartitions x upsample in {0.5,1,4} on presorted and unsorted inputs; fuse on/off everywhere. Oracle: every grid point equals the pandas result (row order / layout ignored; sort outputs must be "
    "ordered by key and a permutation of the rows). non-trivial = the grid point's physical plan has a different expression-class multiset (reductions: a different number of tasks) than the default configuration's; distinct by (query, knobs)"
)
ASSUMPTIONS = ["p2p unreachable", "float tolerance rtol=1e-9 for mean/var"]
BUDGET_S = {"quick": 170, "thorough": 900}


def _h(x):
    import zlib

    return zlib.crc32(repr(x).encode())


def table(n, seed=0, sorted_key=False):
    rid = np.arange(n)
    k = (rid * 7 + seed) % 9
    if sorted_key:
        k = np.sort(k)
    f = np.where(rid % 6 == 0, np.nan, ((rid * 5 + seed) % 13 - 6) / 2.0)
    s = pd.array([None if i % 8 == 0 else "abcde"[(i * 3 + seed) % 5] for i in rid], dtype="string[pyarrow]")
    u = (rid * 37 + seed * 11) % 101  # (almost) unique sort key
    return pd.DataFrame({"k": k.astype("int64"), "k2": (rid % 3).astype("int64"), "f": f, "s": s, "u": u.astype("int64"), "rid": rid})


def systematic(tier):
    cases = []
    fuses = [True, False]
    se_vals = [None, False, 2, 3, 4, 8]
    nparts = [3, 20] if tier == "quick" else [1, 3, 9, 20]
    # reductions
    for how in ("sum", "mean", "max", "var", "count", "std", "min", "idxmin", "idxmax", "any", "all", "sem", "nunique_frame", "mode", "nlargest", "nsmallest", "cov", "corr"):
        for se in se_vals:
            for n in nparts:
                for target in ("series", "frame"):
                    cases.append({"fam": "reduction", "how": how, "split_every": se, "n": n, "target": target, "fuse": (n + len(how)) % 2 == 0})
    # groupby
    gb_hows = ["sum", "mean", "count", "var", "nunique", "min", "size", "aggdict"]
    for how in gb_hows:
        for by in (["k"], ["k", "k2"], ["s"]):
            for se, so, sort, sm in itertools.product([None, 2, 3], [None, 1, 2, 3, True], [None, True, False], [None, "tasks", "disk"]):
                if tier == "quick" and (_h((how, tuple(by), se, so, sort, sm)) % 4):
                    continue
                if sort and so not in (None, 1):
                    continue  # documented: cannot guarantee sorted output with split_out > 1
                for n in nparts:
                    cases.append({"fam": "groupby", "how": how, "by": by, "split_every": se, "split_out": so, "sort": sort, "shuffle_method": sm, "n": n, "fuse": (n + len(how)) % 2 == 1})
    # dedup family
    for op in ("unique", "drop_duplicates", "value_counts", "nunique", "drop_duplicates_subset"):
        for se, so, sm in itertools.product([None, 2, 4], [None, 1, 2, 5, True], [None, "tasks", "disk"]):
            for n in nparts:
                cases.append({"fam": "dedup", "op": op, "split_every": se, "split_out": so, "shuffle_method": sm, "n": n, "fuse": n % 2 == 0})
    # merges
    sizes = [(2, 17), (20, 3), (3, 3), (1, 5), (8, 8), (17, 2)]
    for how in ("inner", "left", "right", "outer"):
        for (nl, nr) in sizes:
            for bc, hint, sm in itertools.product([None, True, False, 0.1, 0.9, 3.0], [None, 2, 7], [None, "tasks", "disk"]):
                if tier == "quick" and (_h((how, nl, nr, bc, hint, sm)) % 3):
                    continue
                cases.append({"fam": "merge", "how": how, "nl": nl, "nr": nr, "broadcast": bc, "npartitions": hint, "shuffle_method": sm, "fuse": (nl + nr) % 2 == 0})
    # shuffles / sorts
    for op in ("shuffle", "sort_values", "set_index", "sort_values_desc", "set_index_dup"):
        for mb, np_, up, sm in itertools.product([None, 2, 3, 4, 8], [None, 1, 2, 7], [None, 0.5, 4.0], [None, "tasks", "disk"]):
            if op == "shuffle" and up is not None:
                continue
            if tier == "quick" and (_h((op, mb, np_, up, sm)) % 3):
                continue
            for n in ([3, 9] if tier == "quick" else [1, 3, 9, 20]):
                for presorted in (False, True):
                    cases.append({"fam": "sort", "op": op, "max_branch": mb, "npartitions": np_, "upsample": up, "shuffle_method": sm, "n": n, "presorted": presorted, "fuse": (n + (mb or 0)) % 2 == 0})
    return cases


def _kw(**kw):
    return {k: v for k, v in kw.items() if v is not None}


def build(case, knobs=True):
    """-> (dask collection, pandas expected, comparison mode)"""
    import dask_expr as dx

    fam = case["fam"]
    if fam == "reduction":
        pdf = table(60)
        d = dx.from_pandas(pdf, npartitions=case["n"], sort=False)
        obj_d, obj_p = (d.f, pdf.f) if case["target"] == "series" else (d[["f", "u", "k"]], pdf[["f", "u", "k"]])
        kw = _kw(split_every=case["split_every"]) if knobs else {}
        how = case["how"]
        ser = case["target"] == "series"
        if how in ("nlargest", "nsmallest"):  # u is unique: one valid answer
            if ser:
                return getattr(d.u, how)(5, **kw), getattr(pdf.u, how)(5), {"order": False}
            return getattr(obj_d, how)(5, columns="u", **kw), getattr(obj_p, how)(5, columns="u"), {"order": False}
        if how in ("cov", "corr"):
            if ser:
                return getattr(d.f, how)(d.u, **kw), getattr(pdf.f, how)(pdf.u), {"order": False}
            return getattr(obj_d, how)(**kw), getattr(obj_p, how)(), {"order": False}
        if how == "mode":
            if ser:
                return d.k.mode(**kw), pdf.k.mode(), {"order": False, "index": False}
            return d[["k", "k2"]].mode(**kw), pdf[["k", "k2"]].mode(), {"order": False, "index": False}
        if how == "nunique_frame":
            return obj_d.nunique(**kw) if not ser else d.u.nunique(**kw), obj_p.nunique() if not ser else pdf.u.nunique(), {"order": False}
        if how in ("any", "all"):
            bd, bp = (d.k2 > 0, pdf.k2 > 0) if ser else (d[["k2", "u"]] > 0, pdf[["k2", "u"]] > 0)
            if how == "any":
                bd, bp = ~bd, ~bp
            return getattr(bd, how)(**kw), getattr(bp, how)(), {"order": False}
        return getattr(obj_d, how)(**kw), getattr(obj_p, how)(), {"order": False}
    if fam == "groupby":
        pdf = table(60)
        d = dx.from_pandas(pdf, npartitions=case["n"], sort=False)
        by = case["by"] if len(case["by"]) > 1 else case["by"][0]
        gkw = _kw(sort=case["sort"]) if knobs else {}
        akw = _kw(split_every=case["split_every"], split_out=case["split_out"], shuffle_method=case["shuffle_method"]) if knobs else {}
        gd, gp = d.groupby(by, **gkw), pdf.groupby(by)
        how = case["how"]
        if how == "aggdict":
            return gd.agg({"f": "sum", "u": "max"}, **akw), gp.agg({"f": "sum", "u": "max"}), {"order": False}
        if how == "size":
            return gd.size(**akw), gp.size(), {"order": False}
        if how == "nunique":
            return gd.u.nunique(**akw), gp.u.nunique(), {"order": False}
        return getattr(gd[["f", "u"]], how)(**akw), getattr(gp[["f", "u"]], how)(), {"order": False}
    if fam == "dedup":
        pdf = table(60)
        d = dx.from_pandas(pdf, npartitions=case["n"], sort=False)
        kw = _kw(split_every=case["split_every"], split_out=case["split_out"], shuffle_method=case["shuffle_method"]) if knobs else {}
        op = case["op"]
        if op == "unique":
            kw.pop("split_out", None) if kw.get("split_out") is True else None
            return d.k.unique(**kw), pd.Series(pdf.k.unique(), name="k"), {"order": False, "index": False}
        if op == "drop_duplicates":
            return d[["k", "k2", "s"]].drop_duplicates(**kw), pdf[["k", "k2", "s"]].drop_duplicates(), {"order": False, "index": False}
        if op == "drop_duplicates_subset":
            # many valid answers: one row per distinct key, each a member of the input
            return d[["k", "rid"]].drop_duplicates(subset=["k"], **kw), pdf[["k", "rid"]], {"validity": "one_per_key"}
        if op == "value_counts":
            kw.pop("shuffle_method", None)  # not a value_counts keyword
            return d.s.value_counts(**kw), pdf.s.value_counts(), {"order": False}
        if op == "nunique":
            kw.pop("shuffle_method", None)
            return d.k.nunique(**_kw(split_every=kw.get("split_every"))), pdf.k.nunique(), {"order": False}
    if fam == "merge":
        L, R = table(3 * case["nl"] + 9, seed=1), table(2 * case["nr"] + 7, seed=4)[["k", "f", "rid"]].rename(columns={"rid": "rrid", "f": "g"})
        dl, dr = dx.from_pandas(L, npartitions=case["nl"], sort=False), dx.from_pandas(R, npartitions=case["nr"], sort=False)
        kw = _kw(broadcast=case["broadcast"], npartitions=case["npartitions"], shuffle_method=case["shuffle_method"]) if knobs else {}
        return dl.merge(dr, on="k", how=case["how"], **kw), L.merge(R, on="k", how=case["how"]), {"order": False, "index": False}
    if fam == "sort":
        pdf = table(40, sorted_key=case["presorted"])
        if case["presorted"]:
            pdf = pdf.sort_values("u").reset_index(drop=True) if case["op"].startswith(("sort_values", "set_index")) and case["op"] != "set_index_dup" else pdf
        d = dx.from_pandas(pdf, npartitions=case["n"], sort=False)
        op = case["op"]
        opts = _kw(max_branch=case["max_branch"]) if knobs else {}
        if op == "shuffle":
            kw = _kw(npartitions=case["npartitions"], shuffle_method=case["shuffle_method"]) if knobs else {}
            return d.shuffle("k", **kw, **opts), pdf, {"order": False}
        if op in ("sort_values", "sort_values_desc"):
            kw = _kw(npartitions=case["npartitions"], upsample=case["upsample"], shuffle_method=case["shuffle_method"]) if knobs else {}
            asc = op == "sort_values"
            return d.sort_values("u", ascending=asc, **kw, **opts), pdf.sort_values("u", ascending=asc), {"sorted_by": ("u", asc)}
        if op in ("set_index", "set_index_dup"):
            col = "u" if op == "set_index" else "k"
            kw = _kw(npartitions=case["npartitions"], upsample=case["upsample"], shuffle_method=case["shuffle_method"]) if knobs else {}
            return d.set_index(col, **kw, **opts), pdf.set_index(col).sort_index(kind="stable"), {"sorted_index": True}
    raise ValueError(case)


def check(case):
    failures = []
    label = {k: v for k, v in case.items() if k not in ("fuse",)}
    try:
        q, expect, mode = build(case)
    except Exception as e:
        return {"failures": [Failure("knob-build-raises", f"{label}: building the query raised {type(e).__name__}: {e}", exc=e).record()], "nontrivial": False}
    try:
        opt = q.optimize(fuse=case["fuse"])
        res = plans.execute(opt.expr)[0]
    except Exception as e:
        # does the default configuration work?
        try:
            q0, _, _ = build(case, knobs=False)
            plans.execute(q0.optimize(fuse=case["fuse"]).expr)
        except Exception:
            return {"failures": [], "nontrivial": False, "classes": ["default_config_fails"]}
        return {"failures": [Failure("knob-raises", f"{label}: raised {type(e).__name__}: {e} (default configuration computes)", exc=e).record()], "nontrivial": False}
    d = None
    if mode.get("validity") == "one_per_key":
        keys = sorted(res["k"].tolist())
        if keys != sorted(set(expect["k"].tolist())):
            d = f"one row per distinct key expected, got keys {keys}"
        elif not set(map(tuple, res[["k", "rid"]].to_numpy().tolist())) <= set(map(tuple, expect[["k", "rid"]].to_numpy().tolist())):
            d = "a returned row is not a row of the input"
    elif "sorted_by" in mode:
        col, asc = mode["sorted_by"]
        if not is_sorted_by(res, col, ascending=asc):
            d = f"output is not ordered by {col} (ascending={asc})"
        else:
            d = equiv(res, expect, order=False, index=True, dtypes="kind")
    elif mode.get("sorted_index"):
        if not res.index.is_monotonic_increasing:
            d = "index of the set_index result is not sorted"
        else:
            d = equiv(res, expect, order=False, index=True, dtypes="kind")
    else:
        d = equiv(res, expect, order=mode.get("order", False), index=mode.get("index", True), dtypes="kind")
    if d is not None:
        failures.append(Failure("knob-changes-result", f"{label}: {d}", extra={"bucket_hint": case["fam"] + ":" + str(case.get("op", case.get("how")))}).record())
    # non-triviality: a different physical plan than the default configuration
    nt = False
    try:
        q0, _, _ = build(case, knobs=False)
        c0 = plans.classes_in(q0.optimize(fuse=case["fuse"]).expr)
        c1 = plans.classes_in(opt.expr)
        nt = c0 != c1
        if not nt and case["fam"] == "reduction":
            # split_every changes the shape of the reduction tree, not the expression classes
            nt = len(q0.optimize(fuse=case["fuse"]).expr.__dask_graph__()) != len(opt.expr.__dask_graph__())
    except Exception:
        pass
    classes = ["fam:" + case["fam"], "fuse" if case["fuse"] else "nofuse"] + (["plan_differs_from_default"] if nt else [])
    classes += ["plan:" + n for n in plans.classes_in(opt.expr) if any(x in n for x in ("Shuffle", "Broadcast", "HashJoin", "BlockwiseMerge", "TreeReduce", "ShuffleReduce"))]
    return {"failures": failures, "nontrivial": [repr(sorted(label.items(), key=str))] if nt else False, "classes": classes, "sample": case, "evaluations": 1}


def coverage_extra(tier, agg):
    return {"exhaustive": False, "grid": "see rule; quick subsamples the groupby/merge/sort grids deterministically (1/4, 1/3, 1/3)"}
