"""C05 — results do not depend on task scheduling; tasks never mutate their
inputs (DESIGN §3 C05).  The harness owns the schedule: the materialised
graph is executed by an own sequential executor in chosen topological
orders with an argument-mutation monitor; real threads are sampled on top."""
import hashlib

import dask

from .. import gen, interp, plans, sched, templates
from .. import tables as T
from ..compare import equiv
from ..runner import Failure

LEVEL = "exploration"
RULE = (
    "Hypothesis-generated programs with shared intermediates, fused groups, shuffles (tasks/disk), tree reductions, joins, pure map_partitions UDFs (+ templates); for the "
    "optimized plan with and without fusion: default order, reverse-priority order, 3 hash-seeded random topological orders, and ADVERSARIAL orders (for up to 4 keys with >= 2 "
    "consumers: each consumer pushed as early as possible while its sibling is delayed as long as dependencies allow, both ways); every task gets a cache restricted to its "
    "declared dependencies; before/after every task all arguments are fingerprinted (hash_pandas_object + labels + names + dtypes) and at the end every cached value and the "
    "user's pandas inputs must be unchanged; plus dask.threaded.get with 1,2,4,16 threads and 3 repeated compute() calls. "
    "non-trivial = the graph has a key with >= 2 consumers and a non-default order was executed; distinct by program hash"
)
ASSUMPTIONS = ["thread runs sample timing-dependent behaviour only; the guarantee comes from the sequential executor", "inside a fused task sub-tasks are invisible to the monitor, therefore every plan is also run unfused",
               "UDFs used by generated programs are pure by construction"]
BUDGET_S = {"quick": 170, "thorough": 900}

W = {"assign": 3, "binop": 3, "series_red_reuse": 3, "bcast_scalar": 2, "filter": 2.5, "filter_pred": 2.5, "where": 2, "merge": 2.5, "groupby_agg": 2.5, "shuffle": 1.5, "sort_values": 1.5, "set_index": 1.5,
     "map_partitions": 2.5, "rename": 2, "to_frame": 2, "reset_index": 2, "concat1": 2, "concat0": 1.5, "fillna": 1.5, "astype": 1, "cut": 1, "index_of": 1.5, "rename_series": 3, "cum": 1.5, "shift": 1}
PROFILE_Q = gen.Profile("schedules", weights=W, max_steps=7, max_rows=10, siblings=15)
PROFILE_T = gen.Profile("schedules", weights=W, max_steps=11, max_rows=16, n_tables=(1, 3), siblings=15)


def systematic(tier):
    cs = templates.c01_cases(tier)
    # every case is executed under several schedules with the mutation monitor: sub-sampled in both tiers
    return cs[::2] if tier == "thorough" else cs[::3]


def strategy(tier):
    from hypothesis import strategies as st

    prof = PROFILE_Q if tier == "quick" else PROFILE_T
    return st.builds(lambda p, sh, seed: dict(p, config={"shuffle": sh}, sched_seed=seed), gen.programs(prof), st.sampled_from(["tasks", "tasks", "disk"]), st.integers(0, 10**6))


def n_random(tier):
    return 500 if tier == "quick" else 1200


def _prio_random(graph, seed):
    return {k: int(hashlib.sha1(f"{seed}:{k!r}".encode()).hexdigest()[:8], 16) for k in graph}


def _ancestors(deps, k):
    out = set()
    stack = [k]
    while stack:
        x = stack.pop()
        for d in deps[x]:
            if d not in out:
                out.add(d)
                stack.append(d)
    return out


def schedules(graph, seed):
    deps = sched.deps_of(graph)
    default = sched.default_order(graph, deps)
    yield "default", default
    pos = {k: i for i, k in enumerate(default)}
    yield "reverse-priority", sched.priority_order(graph, {k: -pos[k] for k in graph}, deps)
    for j in range(3):
        yield f"random{j}", sched.priority_order(graph, _prio_random(graph, seed * 7 + j), deps)
    dependents = {k: [] for k in graph}
    for k, ds in deps.items():
        for d in ds:
            dependents[d].append(k)
    shared = sorted([k for k, cs in dependents.items() if len(cs) >= 2], key=sched._key_sort)
    # rotate so that different cases look at different shared keys
    if shared:
        r = seed % len(shared)
        shared = shared[r:] + shared[:r]
    for k in shared[:4]:
        cs = sorted(dependents[k], key=sched._key_sort)
        a, b = cs[0], cs[-1]
        for first, last in ((a, b), (b, a)):
            prio = {x: 5 for x in graph}
            for x in _ancestors(deps, first) | {first}:
                prio[x] = 0
            prio[last] = 9
            # everything downstream of `last` is late anyway; `first`'s own consumers early
            for x in dependents[first]:
                prio[x] = min(prio[x], 1)
            yield f"adversarial:{first!r}<{last!r}", sched.priority_order(graph, prio, deps)


def build(prog, pdfs):
    env = interp.Env("dask")
    for t in prog["tables"]:
        env.add_table(t, pdfs[t["name"]])
    for st in prog["steps"]:
        env.step(st)
    return env.vals


def check(case):
    prog = case
    out_id = prog["out"][0]
    seed = prog.get("sched_seed", 1)
    failures = []
    classes = []
    nt = False
    with plans.config(prog.get("config")):
        pvals = interp.run_pandas(prog)
        flags = interp.static_flags(prog, pvals)
        fl = flags[out_id]
        pdfs = {t["name"]: T.build_pandas(t) for t in prog["tables"]}
        user_fp = {n: sched.fingerprint(p) for n, p in pdfs.items()}
        try:
            dvals = build(prog, pdfs)
            coll = dvals[out_id]
        except Exception as e:
            return {"nontrivial": False, "classes": ["build_fails:" + type(e).__name__]}
        from dask_expr import new_collection

        for fuse in (True, False):
            try:
                low = coll.optimize(fuse=fuse).expr.lower_completely()
                graph = dict(low.__dask_graph__())
                post, extra = new_collection(low).__dask_postcompute__()
                keys = sched.out_keys(low)
                orders = list(schedules(graph, seed))
            except Exception as e:
                classes.append("plan_unavailable")
                continue
            ref = None
            deps = sched.deps_of(graph)
            has_shared = any(sum(1 for ds in deps.values() if k in ds) >= 2 for k in graph)
            for name, order in orders:
                try:
                    cache, mutations = sched.run_graph(graph, order=order, monitor=True, restrict=True)
                    res = post([cache[k] for k in keys], *extra)
                except Exception as e:
                    if ref is None:
                        classes.append("default_order_fails")
                        break
                    failures.append(Failure("order-dependent-failure", f"fuse={fuse} order {name.split(':')[0]}: {type(e).__name__}: {e} (default order computes)", exc=e, extra={"order": name}).record())
                    break
                for m in mutations[:1]:
                    failures.append(Failure("task-mutates-input", f"fuse={fuse} order {name.split(':')[0]}: task {m['task']} changed its input {m['mutated_input']}", extra={"bucket_hint": "mutation", "order": name}).record())
                if mutations:
                    break
                if ref is None:
                    ref = res
                    continue
                if has_shared and order != orders[0][1]:
                    nt = True
                d = equiv(res, ref, order=fl.ordered, index=fl.indexed, dtypes="exact")
                if d is not None:
                    failures.append(Failure("order-dependent-result", f"fuse={fuse} order {name.split(':')[0]} differs from the default order: {d}", extra={"bucket_hint": "result", "order": name}).record())
                    break
            if failures or ref is None:
                break
            for n, p in pdfs.items():
                if sched.fingerprint(p) != user_fp[n]:
                    failures.append(Failure("user-data-mutated", f"fuse={fuse}: the user's pandas input {n} changed", extra={"bucket_hint": "user-data"}).record())
            if failures:
                break
            # real threads (sampling) and repeated computes
            if fuse:
                for nw in (1, 2, 4, 16):
                    try:
                        parts = dask.threaded.get(graph, keys, num_workers=nw)
                        res = post(list(parts), *extra)
                    except Exception as e:
                        failures.append(Failure("threaded-failure", f"threaded get with {nw} workers raised {type(e).__name__}: {e}", exc=e).record())
                        break
                    d = equiv(res, ref, order=fl.ordered, index=fl.indexed, dtypes="exact")
                    if d is not None:
                        failures.append(Failure("threaded-result", f"threaded get with {nw} workers differs from the sequential default order: {d}", extra={"bucket_hint": "threads"}).record())
                        break
                    classes.append("threads")
                if failures:
                    break
                try:
                    rs = [coll.compute() for _ in range(3)]
                    for r in rs[1:]:
                        d = equiv(r, rs[0], order=fl.ordered, index=fl.indexed, dtypes="exact")
                        if d is not None:
                            failures.append(Failure("repeated-compute-differs", f"computing the same collection again gives a different answer: {d}", extra={"bucket_hint": "repeat"}).record())
                            break
                except Exception:
                    classes.append("compute_fails")
                for n, p in pdfs.items():
                    if sched.fingerprint(p) != user_fp[n]:
                        failures.append(Failure("user-data-mutated", f"after compute(): the user's pandas input {n} changed", extra={"bucket_hint": "user-data"}).record())
            if failures:
                break
    classes += ["op:" + s["op"] for s in prog["steps"]]
    if nt:
        classes.append("shared_key_reordered")
    return {"nontrivial": nt, "classes": classes, "failures": failures, "sample": interp.describe(prog), "evaluations": 1}


def shrink_candidates(case):
    from ..shrink import program_candidates

    for c in program_candidates(case):
        c["sched_seed"] = case.get("sched_seed", 1)
        yield c
