"""C13 — repartitioning preserves rows and order and honours the requested
layout (DESIGN §3 C13).  Bounded-exhaustive over (old divisions, new
divisions) on a small ordered domain, the (n_in, n_out) count grid,
partition_size and freq."""
import itertools

import numpy as np
import pandas as pd

from .. import plans
from ..runner import Failure

LEVEL = "exploration"
RULE = (
    "bounded-exhaustive: every pair (old divisions, new divisions) over the ordered domain {0..D} (D=6 quick, 7 thorough; strictly increasing "
    "vectors, optionally with a repeated last value) sharing end points, x 3 data fillings (every value once / twice / sparse with empty partitions) "
    "x index kind (int; float,str,datetime rotated in quick, all in thorough); forced extensions (force=True, wider end points); invalid requests "
    "(end points differ without force, narrower with force, unknown divisions) must raise ValueError; count grid (n_in,n_out)<=10/14 x known/unknown divisions + every float-rounding-sensitive pair up to 48/100; partition_size over equal and uneven partition shapes; "
    "partition_size and freq variants. Oracle: output rids == input rids in order; reported divisions == request and each partition within [b_i,b_i+1) "
    "(last closed); reported npartitions == computed (<= request for counts). non-trivial = old != new and a new boundary falls strictly inside an old "
    "partition or on a value present in the data; distinct by (old,new,filling,kind)"
)
ASSUMPTIONS = ["input layouts are built with from_map(..., divisions=old) so the input side does not depend on the code under test"]
BUDGET_S = {"quick": 170, "thorough": 900}

KINDS = ["int", "float", "str", "dt"]
T0 = pd.Timestamp("2000-01-03")


def conv(kind, v):
    if kind == "int":
        return int(v)
    if kind == "float":
        return v / 2.0
    if kind == "str":
        return "abcdefghij"[v]
    if kind == "dt":
        return T0 + pd.Timedelta(days=int(v))
    raise ValueError(kind)


def division_vectors(D):
    """strictly increasing vectors over 0..D with >= 2 entries, plus variants repeating the last value"""
    out = []
    vals = list(range(D + 1))
    for r in range(1, D + 2):
        for comb in itertools.combinations(vals, r):
            if r >= 2:
                out.append(list(comb))
            out.append(list(comb) + [comb[-1]])
    return out


def part_of(divs, v):
    n = len(divs) - 1
    if v == divs[-1]:
        return n - 1
    for i in range(n):
        if divs[i] <= v < divs[i + 1]:
            return i
    raise ValueError((divs, v))


def filling(old, which):
    lo, hi = old[0], old[-1]
    vals = list(range(lo, hi + 1))
    if which == "once":
        return vals
    if which == "twice":
        return [v for v in vals for _ in range(2)]
    if which == "sparse":
        return [v for v in vals if (v - lo) % 2 == 1 or v == hi and False] or []
    raise ValueError(which)


def systematic(tier):
    D = 6 if tier == "quick" else 7
    vecs = division_vectors(D)
    cases = []
    n = 0
    for old in vecs:
        lo, hi = old[0], old[-1]
        for new in vecs:
            if new[0] != lo or new[-1] != hi:
                continue
            for fill in ("once", "twice", "sparse"):
                n += 1
                kinds = KINDS if tier == "thorough" else (["int"] if n % 4 else ["int", KINDS[1 + (n // 4) % 3]])
                for kind in kinds:
                    cases.append({"mode": "divisions", "old": old, "new": new, "fill": fill, "kind": kind, "force": False})
    # forced extension and invalid requests
    small = [v for v in vecs if v[0] >= 1 and v[-1] <= D - 1]
    for old in small:
        lo, hi = old[0], old[-1]
        for new in vecs:
            wider = new[0] <= lo and new[-1] >= hi and (new[0] < lo or new[-1] > hi)
            if wider and (len(new) <= 4):
                cases.append({"mode": "divisions", "old": old, "new": new, "fill": "once", "kind": "int", "force": True})
                if (len(cases) % 3) == 0:
                    cases.append({"mode": "invalid", "old": old, "new": new, "fill": "once", "kind": "int", "force": False, "why": "range differs without force"})
            narrower = (new[0] > lo or new[-1] < hi) and len(new) <= 3
            if narrower and (len(cases) % 2) == 0:
                cases.append({"mode": "invalid", "old": old, "new": new, "fill": "once", "kind": "int", "force": True, "why": "range not covered with force"})
    for new in vecs[:30]:
        cases.append({"mode": "invalid-unknown", "new": new, "kind": "int"})
    # count based
    N = 10 if tier == "quick" else 14
    for n_in in range(1, N + 1):
        for n_out in range(1, N + 1):
            for known in (True, False):
                kinds = ["int", "dt"] if tier == "quick" else KINDS
                for kind in kinds:
                    cases.append({"mode": "count", "n_in": n_in, "n_out": n_out, "known": known, "kind": kind, "dups": (n_in + n_out) % 2 == 0})
    # larger counts: every pair whose float ratio rounds below n_in (int(n_out * (n_in / n_out)) != n_in,
    # plain arithmetic, independent of the planner) and a thinned sample of the rest
    M = 48 if tier == "quick" else 100
    for n_in in range(N + 1, M + 1):
        for n_out in range(1, n_in + 3):
            rounding = n_out < n_in and int(n_out * (n_in / n_out)) != n_in
            if rounding or (n_in * 31 + n_out * 7) % (23 if tier == "quick" else 5) == 0:
                cases.append({"mode": "count", "n_in": n_in, "n_out": n_out, "known": (n_in + n_out) % 3 != 0, "kind": "int", "dups": False})
    for size in (200, 500, 2000, 100000):
        for n_in in (1, 3, 7):
            for known in (True, False):
                cases.append({"mode": "size", "n_in": n_in, "size": size, "known": known})
    # uneven partitions: some are split, others pass through or are merged (seeded change C13-c)
    shapes = [[60, 4, 5, 3], [3, 60, 4, 5], [4, 5, 60], [60, 70, 3], [3, 4, 60, 5, 70, 2], [50, 2, 2, 2, 2, 40, 1]]
    if tier != "quick":
        shapes += [[a, b, c] for a in (2, 30, 90) for b in (2, 30, 90) for c in (2, 30, 90)]
    for shape in shapes:
        for size in (300, 500, 1000, 2000, 5000):
            for known in (True, False):
                cases.append({"mode": "size", "n_in": len(shape), "shape": shape, "size": size, "known": known})
    for freq in ("1D", "2D", "3D", "7D", "36h"):
        for n_in in (1, 2, 5):
            cases.append({"mode": "freq", "n_in": n_in, "freq": freq})
    return cases


def build_divided(old, fill, kind):
    import dask_expr as dx
    from .. import udfs

    vals = filling(old, fill)
    parts = [[] for _ in range(len(old) - 1)]
    for v in vals:
        parts[part_of(old, v)].append(v)
    order = [v for p in parts for v in p]
    idx = pd.Index([conv(kind, v) for v in order], name="ix")
    if kind == "str":
        idx = pd.Index(pd.array(list(idx), dtype="string[pyarrow]"), name="ix")
    pdf = pd.DataFrame({"rid": np.arange(len(order)), "x": [v * 1.5 for v in order]}, index=idx)
    bounds = []
    a = 0
    for p in parts:
        bounds.append((a, a + len(p)))
        a += len(p)
    divs = tuple(conv(kind, v) for v in old)
    ddf = dx.from_map(udfs.iloc_slice_noproj, bounds, pdf=pdf, meta=pdf.iloc[:0], divisions=divs)
    return pdf, ddf


def in_range(divs, i, values):
    lo, hi = divs[i], divs[i + 1]
    last = i == len(divs) - 2
    for v in values:
        if v < lo or (v > hi if last else v >= hi):
            return False
    return True


def check(case):
    mode = case["mode"]
    f = {"divisions": check_divisions, "invalid": check_invalid, "invalid-unknown": check_invalid_unknown, "count": check_count, "size": check_size, "freq": check_freq}[mode]
    return f(case)


def _fail(kind, detail, exc=None):
    return Failure(kind, detail, exc=exc, extra={"bucket_hint": kind}).record()


def check_divisions(case):
    kind = case["kind"]
    old, new = case["old"], case["new"]
    pdf, ddf = build_divided(old, case["fill"], kind)
    newd = [conv(kind, v) for v in new]
    failures = []
    try:
        rp = ddf.repartition(divisions=newd, force=case["force"])
        outs = []
        for label, coll in (("optimized", rp.optimize()), ("unfused", rp.optimize(fuse=False))):
            res, parts, _, _, low = plans.execute(coll.expr)
            outs.append((label, coll, res, parts))
    except Exception as e:
        return {"failures": [Failure("repartition-raises", f"valid request raised {type(e).__name__}: {e}", exc=e).record()], "nontrivial": False}
    for label, coll, res, parts in outs:
        if res["rid"].tolist() != pdf["rid"].tolist():
            failures.append(_fail("rows-or-order", f"{label}: output rids {res['rid'].tolist()} != input {pdf['rid'].tolist()}"))
            break
        if list(res.index) != list(pdf.index):
            failures.append(_fail("index-changed", f"{label}: index labels changed"))
            break
        if tuple(coll.divisions) != tuple(newd) or tuple(rp.divisions) != tuple(newd):
            failures.append(_fail("divisions-not-honoured", f"{label}: reported divisions {coll.divisions} != requested {tuple(newd)}"))
            break
        if len(parts) != len(newd) - 1 or coll.npartitions != len(newd) - 1:
            failures.append(_fail("npartitions", f"{label}: {len(parts)} computed partitions, reported {coll.npartitions}, requested {len(newd) - 1}"))
            break
        for i, p in enumerate(parts):
            if not in_range(newd, i, list(p.index)):
                failures.append(_fail("partition-out-of-range", f"{label}: partition {i} holds {list(p.index)} outside [{newd[i]}, {newd[i + 1]}{']' if i == len(newd) - 2 else ')'}"))
                break
        if failures:
            break
    present = set(filling(old, case["fill"]))
    inner_new = set(new[1:-1]) | ({new[-1]} if len(new) >= 2 and new[-1] == new[-2] else set())
    nt = (old != new) and any((b not in old) or (b in present) for b in inner_new)
    classes = ["mode:divisions", f"kind:{kind}", f"fill:{case['fill']}", "force" if case["force"] else "noforce"]
    if len(old) >= 2 and old[-1] == old[-2]:
        classes.append("old_repeated_last")
    if len(new) >= 2 and new[-1] == new[-2]:
        classes.append("new_repeated_last")
    if new[0] == new[-1]:
        classes.append("single_value_range")
    return {"failures": failures, "nontrivial": [f"{old}>{new}|{case['fill']}|{kind}|{case['force']}"] if nt else False, "classes": classes, "sample": case}


def check_invalid(case):
    kind = case["kind"]
    pdf, ddf = build_divided(case["old"], case["fill"], kind)
    newd = [conv(kind, v) for v in case["new"]]
    try:
        rp = ddf.repartition(divisions=newd, force=case["force"])
        res, parts, _, _, _ = plans.execute(rp.optimize().expr)
    except ValueError:
        return {"failures": [], "nontrivial": [f"invalid|{case['old']}|{case['new']}|{case['force']}"], "classes": ["mode:invalid", "rejected"], "sample": case}
    except Exception as e:
        return {"failures": [Failure("invalid-request-wrong-error", f"{case['why']}: raised {type(e).__name__} instead of ValueError: {e}", exc=e).record()], "nontrivial": False}
    return {"failures": [_fail("invalid-request-accepted", f"{case['why']}: old {case['old']} new {case['new']} force={case['force']} succeeded with {len(res)} rows (input {len(pdf)})")], "nontrivial": False, "classes": ["mode:invalid"]}


def check_invalid_unknown(case):
    import dask_expr as dx

    pdf = pd.DataFrame({"rid": np.arange(8)}, index=pd.Index(np.arange(8) % 6, name="ix")).sort_index()
    ddf = dx.from_pandas(pdf, npartitions=3).clear_divisions()
    try:
        rp = ddf.repartition(divisions=case["new"])
        res = plans.execute(rp.optimize().expr)[0]
    except ValueError:
        return {"failures": [], "nontrivial": [f"unknown|{case['new']}"], "classes": ["mode:invalid-unknown", "rejected"], "sample": case}
    except Exception as e:
        return {"failures": [Failure("invalid-request-wrong-error", f"unknown divisions: raised {type(e).__name__}: {e}", exc=e).record()], "nontrivial": False}
    return {"failures": [_fail("invalid-request-accepted", f"repartition(divisions={case['new']}) on unknown divisions succeeded with {len(res)} rows")], "nontrivial": False}


def _count_frame(n_in, kind, dups):
    n = max(2 * n_in + 1, 5)
    base = [(i // 2 if dups else i) for i in range(n)]
    if kind == "dt":
        idx = pd.DatetimeIndex([T0 + pd.Timedelta(days=int(v)) for v in base], name="ix")
    elif kind == "float":
        idx = pd.Index([v / 2 for v in base], name="ix")
    elif kind == "str":
        # the default string index of this pandas (an explicit ``string[pyarrow]`` extension index with repeated labels is rejected by the
        # pinned dask's sorted_division_locations - ArrowExtensionArray has no .nonzero - before any repartitioning happens)
        idx = pd.Index([f"k{v:03d}" for v in base], name="ix")
    else:
        idx = pd.Index(base, name="ix")
    return pd.DataFrame({"rid": np.arange(n), "x": np.arange(n) * 0.5}, index=idx)


def check_count(case):
    import dask_expr as dx

    pdf = _count_frame(case["n_in"], case["kind"], case["dups"])
    ddf = dx.from_pandas(pdf, npartitions=case["n_in"])
    n_in_real = ddf.npartitions
    if not case["known"]:
        ddf = ddf.clear_divisions()
    failures = []
    try:
        rp = ddf.repartition(npartitions=case["n_out"])
        coll = rp.optimize()
        res, parts, _, _, low = plans.execute(coll.expr)
    except Exception as e:
        return {"failures": [Failure("repartition-raises", f"repartition(npartitions={case['n_out']}) raised {type(e).__name__}: {e}", exc=e).record()], "nontrivial": False}
    if res["rid"].tolist() != pdf["rid"].tolist() or list(res.index) != list(pdf.index):
        failures.append(_fail("rows-or-order", f"count: output rids {res['rid'].tolist()} != input {pdf['rid'].tolist()}"))
    if not (rp.npartitions == coll.npartitions == len(parts)):
        failures.append(_fail("npartitions", f"count: reported {rp.npartitions}/{coll.npartitions}, computed {len(parts)}"))
    if len(parts) > case["n_out"]:
        failures.append(_fail("npartitions-higher", f"count: {len(parts)} partitions > requested {case['n_out']}"))
    divs = coll.divisions
    if divs[0] is not None:
        if len(divs) != len(parts) + 1:
            failures.append(_fail("divisions-length", f"count: {len(divs)} divisions for {len(parts)} partitions"))
        else:
            for i, p in enumerate(parts):
                if not in_range(list(divs), i, list(p.index)):
                    failures.append(_fail("partition-out-of-range", f"count: partition {i} holds {list(p.index)} outside divisions {divs}"))
                    break
    nt = n_in_real != case["n_out"] and n_in_real > 1 or case["n_out"] > n_in_real
    return {"failures": failures, "nontrivial": [f"count|{case['n_in']}|{case['n_out']}|{case['known']}|{case['kind']}"] if nt else False,
            "classes": ["mode:count", "known" if case["known"] else "unknown", "up" if case["n_out"] > n_in_real else "down"] + ["plan:" + n for n in plans.classes_in(low) if n.startswith("Repartition")], "sample": case}


def check_size(case):
    import dask_expr as dx

    shape = case.get("shape")
    if shape:
        n = sum(shape)
        pdf = pd.DataFrame({"rid": np.arange(n), "x": np.arange(n) * 0.5}, index=pd.Index(np.arange(n), name="ix"))
    else:
        pdf = _count_frame(case["n_in"] * 4, "int", False)
    pdf["pad"] = pd.array(["x" * 40] * len(pdf), dtype="string[pyarrow]")
    if shape:
        offs = np.cumsum([0] + list(shape))
        ddf = dx.concat([dx.from_pandas(pdf.iloc[offs[i]:offs[i + 1]], npartitions=1) for i in range(len(shape))])
    else:
        ddf = dx.from_pandas(pdf, npartitions=case["n_in"])
    if not case["known"]:
        ddf = ddf.clear_divisions()
    failures = []
    try:
        rp = ddf.repartition(partition_size=case["size"])
        coll = rp.optimize()
        res, parts, _, _, low = plans.execute(coll.expr)
    except Exception as e:
        return {"failures": [Failure("repartition-raises", f"repartition(partition_size={case['size']}) raised {type(e).__name__}: {e}", exc=e).record()], "nontrivial": False}
    if res["rid"].tolist() != pdf["rid"].tolist() or list(res.index) != list(pdf.index):
        failures.append(_fail("rows-or-order", f"size: output rids {res['rid'].tolist()} != input"))
    if not (coll.npartitions == len(parts)):
        failures.append(_fail("npartitions", f"size: reported {coll.npartitions}, computed {len(parts)}"))
    return {"failures": failures, "nontrivial": [f"size|{case.get('shape') or case['n_in']}|{case['size']}|{case['known']}"] if len(parts) != ddf.npartitions else False, "classes": ["mode:size"] + (["size:uneven"] if shape else []), "sample": case}


def check_freq(case):
    import dask_expr as dx

    pdf = _count_frame(case["n_in"] * 3, "dt", True)
    ddf = dx.from_pandas(pdf, npartitions=case["n_in"])
    failures = []
    try:
        rp = ddf.repartition(freq=case["freq"])
        coll = rp.optimize()
        res, parts, _, _, low = plans.execute(coll.expr)
    except Exception as e:
        return {"failures": [Failure("repartition-raises", f"repartition(freq={case['freq']}) raised {type(e).__name__}: {e}", exc=e).record()], "nontrivial": False}
    if res["rid"].tolist() != pdf["rid"].tolist() or list(res.index) != list(pdf.index):
        failures.append(_fail("rows-or-order", f"freq: output rids {res['rid'].tolist()} != input"))
    divs = list(coll.divisions)
    if len(divs) != len(parts) + 1 or coll.npartitions != len(parts):
        failures.append(_fail("npartitions", f"freq: reported {coll.npartitions}, {len(divs)} divisions, computed {len(parts)}"))
    else:
        for i, p in enumerate(parts):
            if not in_range(divs, i, list(p.index)):
                failures.append(_fail("partition-out-of-range", f"freq: partition {i} holds {list(p.index)[:4]} outside divisions"))
                break
    return {"failures": failures, "nontrivial": [f"freq|{case['n_in']}|{case['freq']}"], "classes": ["mode:freq"], "sample": case}


def coverage_extra(tier, agg):
    D = 6 if tier == "quick" else 7
    return {"exhaustive": agg["skipped_budget"] == 0, "bounds": {"division domain": [0, D], "count grid": 10 if tier == "quick" else 14}}
