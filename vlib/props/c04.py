"""C04 — column pruning never changes a result (DESIGN §3 C04).

O1 differential on a projection-heavy profile; O2 metamorphic widening:
sources get extra columns the program never mentions (source-projection
variant for every program, end-projection variant for column-independent
programs); results must be identical."""
import copy

from .. import gen, interp, plans, templates
from ..compare import equiv
from ..runner import Failure
from . import c01

LEVEL = "exploration"
RULE = (
    "Hypothesis-generated programs from a projection-heavy profile (column subsets/reorderings, renames, suffixes, implicit key columns, shared intermediates) "
    "+ rule-trigger templates. O1: every optimizer stage vs the unoptimized lowering. O2 widening: every source gets 3 extra columns (int, str, float; names "
    "colliding with merge suffixes such as g_x) that the program never mentions; variant S = sources replaced by t[original columns] on the wide tables must equal the "
    "narrow run at every stage; variant E (programs of column-independent operators only) = P(wide)[columns of P(narrow)] must equal P(narrow). "
    "non-trivial = some source expression in the optimized plan carries strictly fewer columns than its table offers; distinct by program hash"
)
ASSUMPTIONS = c01.ASSUMPTIONS
BUDGET_S = {"quick": 170, "thorough": 900}

W = {"cols": 5, "col": 4, "drop": 2, "rename": 2.5, "add_affix": 1.0, "assign": 3, "merge": 4, "merge_index": 1.5, "groupby_agg": 3, "sort_values": 2,
     "set_index": 2, "shuffle": 1.2, "dropna": 1.5, "drop_duplicates": 1.2, "nlargest": 1.2, "filter_pred": 2.5, "concat0": 1, "concat1": 1, "partitions": 0.3, "cut": 0.3}
PROFILE_Q = gen.Profile("projection", weights=W, max_steps=7, max_rows=8)
PROFILE_T = gen.Profile("projection", weights=W, max_steps=11, max_rows=14, n_tables=(1, 3))

# operators whose result does not depend on columns they do not mention
INDEP = {"cols", "col", "drop", "rename", "assign", "astype", "fillna", "binop", "series_red_reuse", "isin", "clip", "to_frame", "filter", "filter_pred", "loc_slice", "loc_list",
         "head", "nlargest", "sort_values", "set_index", "shuffle", "repartition", "partitions", "groupby_agg", "merge", "merge_index", "cum", "value_counts", "unique",
         "accessor", "index_of", "cut", "reset_index", "map_partitions", "where", "binop_scalar", "unary", "reduce", "shift", "dropna", "drop_duplicates"}
SERIES_ONLY = {"binop_scalar", "unary", "reduce", "shift", "where", "drop_duplicates"}  # column independent only when applied to a Series


def systematic(tier):
    m = templates.matrix_cases(tier)
    return templates.c01_cases(tier) + (m if tier == "thorough" else m[::2])


def strategy(tier):
    from hypothesis import strategies as st

    prof = PROFILE_Q if tier == "quick" else PROFILE_T
    return st.builds(lambda p, sh: dict(p, config={"shuffle": sh}), gen.programs(prof), st.sampled_from(["tasks", "tasks", "disk"]))


def n_random(tier):
    return 1600 if tier == "quick" else 12000


EXTRA_COLLIDE = [["g_x", "float"], ["xs", "str"], ["k_y", "int"]]
EXTRA_PLAIN = [["xa", "float"], ["xs", "str"], ["xk", "int"]]


def widen(prog, collide):
    p = copy.deepcopy(prog)
    for ti, t in enumerate(p["tables"]):
        names = {c for c, _ in t["columns"]}
        extra = [[n if ti == 0 else f"{n}_{ti}", k] for n, k in (EXTRA_COLLIDE if collide else EXTRA_PLAIN)]
        extra = [[n if n not in names else n + "_w", k] for n, k in extra]
        t["columns"] = t["columns"] + extra
        for ri, r in enumerate(t["rows"]):
            r.extend([ri * 0.5 - 1 if (ri + ti) % 3 else None, None if ri % 4 == 1 else "pq"[ri % 2], (ri * 7 + ti) % 5])
    return p


def source_projected(wide, narrow):
    """wide tables, but every table is first projected to its original columns"""
    p = copy.deepcopy(wide)
    ren = {}
    pre = []
    for t, tn in zip(p["tables"], narrow["tables"]):
        sid = f"n_{t['name']}"
        pre.append({"id": sid, "op": "cols", "in": [t["name"]], "args": {"cols": [c for c, _ in tn["columns"]]}})
        ren[t["name"]] = sid
    for s in p["steps"]:
        s["in"] = [ren.get(i, i) for i in s["in"]]
    p["steps"] = pre + p["steps"]
    p["out"] = [ren.get(o, o) for o in p["out"]]
    return p


def column_independent(prog, pvals):
    for s in prog["steps"]:
        if s["op"] not in INDEP:
            return False
        if s["op"] in SERIES_ONLY and interp.O.kind_of(pvals[s["in"][0]]) != "series":
            return False
        if s["op"] == "dropna" and "subset" not in s["args"] and interp.O.kind_of(pvals[s["in"][0]]) != "series":
            return False
    return True


def _io_prunes(expr, widths):
    for e in expr.walk():
        n = type(e).__name__
        if n.startswith(("FromPandas", "FromMap", "FromDelayed", "FromGraph", "ReadParquet", "ReadCSV", "FromArray")):
            try:
                if any(len(e.columns) < w for w in widths):
                    return True
            except Exception:
                pass
    return False


def check(case):
    prog = case
    res1 = c01.differential(prog, "C04", stages=["simplified-logical", "simplified-physical", "fused"], with_compute=False)
    failures = list(res1.get("failures", []))
    classes = [c for c in res1.get("classes", []) if not c.startswith("op:")]
    if res1.get("counters", {}).get("unoptimized_fails"):
        return res1
    out_id = prog["out"][0]
    nt = False
    with plans.config(prog.get("config")):
        pvals = interp.run_pandas(prog)
        flags = interp.static_flags(prog, pvals)
        fl = flags[out_id]
        if not fl.defined:
            return dict(res1, nontrivial=False)
        try:
            ref = plans.execute(interp.run_dask(prog)[out_id].expr)[0]
        except Exception:
            return dict(res1, nontrivial=False)
        wide = widen(prog, True)
        variants = [("S", source_projected(wide, prog), None)]
        if column_independent(prog, pvals) and interp.O.kind_of(pvals[out_id]) in ("frame", "series", "scalar", "index"):
            variants.append(("E", widen(prog, False), list(pvals[out_id].columns) if interp.O.kind_of(pvals[out_id]) == "frame" else None))
            classes.append("variant_E")
        widths = [len(t["columns"]) for t in wide["tables"]]
        for vname, vprog, endcols in variants:
            if failures:
                break
            try:
                interp.run_pandas(vprog)  # the widened program must still be well typed
            except Exception:
                classes.append(f"variant_{vname}_illtyped")
                continue
            try:
                dv = interp.run_dask(vprog)
                coll = dv[vprog["out"][0]]
                if endcols is not None:
                    coll = coll[endcols]
                expr = coll.expr
            except Exception as e:
                failures.append(Failure("widened-build-raises", f"variant {vname}: building the widened query raised {type(e).__name__}: {e}", exc=e).record())
                break
            for stage in ("logical", "simplified-logical", "fused"):
                try:
                    se = plans.optimize_until(expr, stage)
                    if stage == "fused" and _io_prunes(se, widths):
                        nt = True
                    got = plans.execute(se)[0]
                except Exception as e:
                    failures.append(Failure("widened-raises", f"variant {vname} stage {stage}: {type(e).__name__}: {e} (narrow query computes)", stage=stage, exc=e).record())
                    break
                d = equiv(got, ref, order=fl.ordered, index=fl.indexed, dtypes="promo")
                if d is not None:
                    failures.append(Failure("widening-changes-result", f"variant {vname} stage {stage}: result on widened inputs differs: {d}", stage=stage, extra={"bucket_hint": f"{vname}-{stage}"}).record())
                    break
    classes += ["op:" + s["op"] for s in prog["steps"]]
    return {"nontrivial": nt, "classes": classes, "failures": failures, "sample": interp.describe(prog), "evaluations": 1}


def shrink_candidates(case):
    from ..shrink import program_candidates

    return program_candidates(case)
