"""C18 — parquet reads with pushed-down work equal reading everything into
memory (DESIGN §3 C18)."""
import itertools
import os
import shutil
import uuid
import warnings

import numpy as np
import pandas as pd

from .. import plans, structure
from .. import tables as T
from ..compare import equiv
from ..runner import Failure

LEVEL = "exploration"
RULE = (
    "Hypothesis-drawn and systematic small datasets (int/float/bool/string/datetime/categorical columns with nulls; unnamed default, named, non-default int, string and datetime indexes; 1..6 files "
    "incl. an empty partition, an all-null column in one file, files written in an order - reversed or rotated - that leaves the file statistics unsorted) written with to_parquet into a per-case directory x reader "
    "{fsspec, arrow} x calculate_divisions {off,on} x ~45 queries per dataset: round trip, projections (subsets, reordered, Series), filter trees (comparisons incl. !=, isin, isna/notnull, column vs "
    "column, and/or/not up to 2 connectives), user filters= combined with pushed predicates, partition subsets, len (with and without projection/filter), head, index access, arithmetic on top "
    "(fused multi-file reads). Oracle: (1) read == what was written (rows as multiset with index; divisions, when requested, satisfy the C06 predicate); (2) every query after optimize() == the same "
    "selection done by pandas on the fully read frame (user filters= judged by pyarrow row-filter semantics); (3) overwriting a dataset the query still reads raises ValueError and leaves it intact. "
    "non-trivial = the optimized plan pushed columns / filters / partitions into the reader or answered a length from statistics, on a dataset with >= 2 files; distinct by (dataset hash, reader, query)"
)
ASSUMPTIONS = ["row order is compared only when divisions were requested and reported (the arrow reader lists files in directory order)", "user filters= follow pyarrow semantics (rows for which the condition is null are dropped)"]
BUDGET_S = {"quick": 175, "thorough": 900}
NO_FRESH_CONFIRM = False
MINIMISE_EVALS = {"quick": 25, "thorough": 120}


def dataset_spec(draw=None, variant=0):
    """table spec (vlib.tables format) + file cuts"""
    if draw is None:
        n = [9, 12, 7, 10, 6, 11][variant % 6]
        cols = [["k", "int"], ["f", "float"], ["g", "float"], ["s", "str"], ["b", "bool"], ["c", "cat"], ["d", "dt"], ["rid", "int"]]
        rows = []
        for i in range(n):
            rows.append([(i * 5 + variant) % 4, None if (i + variant) % 4 == 0 else ((i * 3 + variant) % 7 - 3) / 2.0, None if i < 3 and variant % 3 == 1 else (i % 5) - 2.0,
                         None if i % 5 == 1 else "abc"[(i + variant) % 3], i % 2 == 0, None if i % 4 == 2 else T.CATS[i % 3], None if i % 6 == 5 else (i * 2 + variant) % 9, i])
        ikind = ["range", "int", "int_unnamed", "str", "dt", "range"][variant % 6]
        index = {"kind": "range", "name": None}
        if ikind == "int":
            index = {"kind": "int", "name": "idx", "values": sorted((i * 3) // 2 for i in range(n))}
        elif ikind == "int_unnamed":
            index = {"kind": "int", "name": None, "values": [10 + 2 * i for i in range(n)]}
        elif ikind == "str":
            index = {"kind": "str", "name": "sid", "values": sorted("abcdefghijklmnop"[i] for i in range(n))}
        elif ikind == "dt":
            index = {"kind": "dt", "name": "when", "values": list(range(n))}
        cutsets = [[n], [3, n - 3], [2, 0, n - 2], [1, 2, n - 3], [2, 2, 2, n - 6], [1, 1, 1, 1, 1, n - 5]]
        cuts = cutsets[(variant // 2) % len(cutsets)]
        order = "reversed" if variant % 4 == 3 else "rotated" if variant % 4 == 1 else "asis"
        return _no_cat_with_empty_file({"name": "t0", "columns": cols, "rows": rows, "index": index, "cuts": cuts, "order": order})
    from hypothesis import strategies as st

    spec = T.st_table(draw, name="t0", max_rows=12, min_rows=1, index_kinds=("range", "int", "str", "dt"))
    spec.pop("layout", None)
    n = len(spec["rows"])
    k = draw(st.integers(1, min(6, n)))
    pts = sorted(draw(st.lists(st.integers(0, n), min_size=k - 1, max_size=k - 1)))
    spec["cuts"] = [b - a for a, b in zip([0] + pts, pts + [n])]
    spec["order"] = draw(st.sampled_from(["asis", "asis", "reversed", "rotated"]))
    return _no_cat_with_empty_file(spec)


def _no_cat_with_empty_file(spec):
    """pandas 3 reads the (empty) categories of a row-less file with another dtype than those of the other
    files and then refuses to concatenate them - an environment quirk, not the reader's: no categorical
    columns in datasets that contain an empty file."""
    if 0 in spec["cuts"]:
        keep = [i for i, (c, k) in enumerate(spec["columns"]) if k != "cat"]
        spec["columns"] = [spec["columns"][i] for i in keep]
        spec["rows"] = [[r[i] for i in keep] for r in spec["rows"]]
    return spec


def systematic(tier):
    cases = []
    nvar = 12 if tier == "quick" else 36
    for v in range(nvar):
        for reader in ("fsspec", "arrow"):
            for cd in (False, True):
                cases.append({"dataset": dataset_spec(variant=v), "reader": reader, "calc_div": cd})
    return cases


def strategy(tier):
    from hypothesis import strategies as st

    @st.composite
    def cases(draw):
        return {"dataset": dataset_spec(draw), "reader": draw(st.sampled_from(["fsspec", "arrow"])), "calc_div": draw(st.booleans())}

    return cases()


def n_random(tier):
    return 80 if tier == "quick" else 600


# ----------------------------------------------------------------- queries

def _num_cols(pdf):
    return [c for c in pdf.columns if pdf[c].dtype.kind in "if" and c != "rid"]


def atoms(pdf):
    """(label, fn(frame)->bool series, reader_expressible)"""
    out = []
    cols = list(pdf.columns)
    if "f" in cols:
        out += [("f>0", lambda d: d.f > 0), ("f!=1.0", lambda d: d.f != 1.0), ("f<=0.5", lambda d: d.f <= 0.5), ("f.isna", lambda d: d.f.isna()), ("f==-0.5", lambda d: d.f == -0.5)]
    if "k" in cols:
        out += [("k>=2", lambda d: d.k >= 2), ("k!=1", lambda d: d.k != 1), ("k.isin", lambda d: d.k.isin([0, 3])), ("k==2", lambda d: d.k == 2)]
    if "s" in cols:
        out += [("s==a", lambda d: d.s == "a"), ("s!=b", lambda d: d.s != "b"), ("s.notnull", lambda d: d.s.notnull())]
    if "f" in cols and "g" in cols:
        out += [("f>g", lambda d: d.f > d.g)]
    if "b" in cols:
        out += [("b", lambda d: d.b)]
    return out


def queries(pdf):
    """list of (label, fn(dask_or_pandas_frame) -> result, kind)"""
    Q = []
    cols = list(pdf.columns)
    Q.append(("full", lambda d: d, "frame"))
    for sub in ([cols[0]], cols[::-1][:3], cols[:2], [c for c in cols if c in ("rid", "f")]):
        if sub:
            Q.append((f"proj{sub}", (lambda sub: lambda d: d[sub])(sub), "frame"))
    Q.append(("series", lambda d: d[cols[-1]], "frame"))
    at = atoms(pdf)
    for lab, fn in at:
        Q.append((f"filter[{lab}]", (lambda fn: lambda d: d[fn(d)])(fn), "frame"))
        Q.append((f"filter[{lab}]+proj", (lambda fn: lambda d: d[fn(d)][["rid"]])(fn), "frame"))
    for (la, fa), (lb, fb) in list(itertools.combinations(at, 2))[:: max(1, len(at) // 4)]:
        Q.append((f"filter[{la}&{lb}]", (lambda fa, fb: lambda d: d[fa(d) & fb(d)])(fa, fb), "frame"))
        Q.append((f"filter[{la}|{lb}]", (lambda fa, fb: lambda d: d[fa(d) | fb(d)])(fa, fb), "frame"))
        Q.append((f"filter[~{la}|{lb}]", (lambda fa, fb: lambda d: d[~fa(d) | fb(d)])(fa, fb), "frame"))
        Q.append((f"filter[{la}][{lb}]", (lambda fa, fb: lambda d: (lambda e: e[fb(e)])(d[fa(d)]))(fa, fb), "frame"))
    num = _num_cols(pdf)
    if num:
        Q.append(("arith", (lambda num: lambda d: d[num] + 1)(num), "frame"))
        Q.append(("arith-series", (lambda c: lambda d: d[c] * 2)(num[0]), "frame"))
        Q.append(("sum", (lambda c: lambda d: d[c].sum())(num[0]), "scalar"))
    Q.append(("index", lambda d: d.index, "index"))
    Q.append(("len", lambda d: len(d), "scalar"))
    Q.append(("len-proj", lambda d: len(d[[cols[0]]]), "scalar"))
    if at:
        Q.append(("len-filter", (lambda fn: lambda d: len(d[fn(d)]))(at[0][1]), "scalar"))
    return Q


def _multiset_equal(got, exp, order, index):
    return equiv(got, exp, order=order, index=index, dtypes="kindpromo")


def check(case):
    import dask
    import dask_expr as dx

    spec = case["dataset"]
    reader, calc_div = case["reader"], case["calc_div"]
    failures, classes, nts = [], [], []
    from ..interp import case_hash

    h = case_hash(spec)
    root = os.path.join(os.environ.get("VERIF_WORK", "/verif/.work/c18"), "pq-" + uuid.uuid4().hex[:10])
    os.makedirs(root, exist_ok=True)
    path = os.path.join(root, "ds")
    only = case.get("only")

    def fail(kind, detail, hint=None, exc=None, **extra):
        failures.append(Failure(kind, f"[{reader}{'+div' if calc_div else ''}] {detail}", exc=exc, extra={"bucket_hint": hint or kind, "reader": reader, **extra}).record())

    try:
        with warnings.catch_warnings():
            warnings.simplefilter("ignore")
            pdf = T.build_pandas(spec)
            bounds = T.cut_bounds(spec["cuts"])
            from .. import udfs

            src = dx.from_map(udfs.iloc_slice_noproj, bounds, pdf=pdf, meta=pdf.iloc[:0])
            if spec.get("order") == "reversed" and len(bounds) > 1:
                src = src.partitions[list(range(len(bounds)))[::-1]]
            elif spec.get("order") == "rotated" and len(bounds) > 1:
                # with >= 3 files a permutation that is not its own inverse
                src = src.partitions[list(range(1, len(bounds))) + [0]]
            written = src.compute()
            try:
                src.to_parquet(path)
            except Exception as e:
                return {"nontrivial": False, "classes": ["write_fails:" + type(e).__name__], "counters": {"write_fails": 1}}
            nfiles = len([f for f in os.listdir(path) if f.endswith(".parquet")])
            kw = {"calculate_divisions": calc_div}
            if reader == "arrow":
                kw["filesystem"] = "arrow"
            iname = pdf.index.name

            def read(**extra):
                return dx.read_parquet(path, **kw, **extra)

            # ---------------- (1) round trip
            r = read()
            try:
                got = r.compute()
            except Exception as e:
                fail("read-raises", f"read_parquet(...).compute() raised {type(e).__name__}: {e}", exc=e)
                return {"nontrivial": False, "classes": classes, "failures": failures}
            index_restored = list(got.columns) == list(written.columns)
            if not index_restored:
                fail("index-not-restored", f"read_parquet returned columns {list(got.columns)} / index name {got.index.name!r}; written: columns {list(written.columns)} / index name {written.index.name!r}", hint="index-not-restored")
                # continue with an explicit index= so that the remaining queries are still meaningful
                idxcol = iname if iname is not None else "__null_dask_index__"
                if idxcol in got.columns:
                    kw["index"] = idxcol
                    r = read()
                    got = r.compute()
                    if iname is None:
                        got.index.name = None
                else:
                    return {"nontrivial": False, "classes": classes, "failures": failures}
            if iname is None and got.index.name == "__null_dask_index__":
                got.index.name = None
            ordered = bool(calc_div and r.divisions[0] is not None)
            d = _multiset_equal(got, written if not ordered else written.sort_index(kind="stable"), order=False, index=True)
            if d is not None:
                fail("roundtrip-differs", f"read back != written: {d}", hint="roundtrip")
            if calc_div:
                parts = plans.execute(r.expr)[1]
                for kd, dt in structure.check_divisions(tuple(r.divisions), parts, "read_parquet divisions")[:1]:
                    fail("divisions-untruthful", dt, hint="divisions")
                if r.divisions[0] is not None:
                    nts.append(f"{h}:{reader}:divisions")
            full = got  # pandas frame = everything read into memory
            # ---------------- (2) pushdown == in-memory
            for label, fn, kind in queries(pdf):
                if only and only != label:
                    continue
                try:
                    exp = fn(full)
                except Exception:
                    continue  # ill-typed for this dataset
                try:
                    q = fn(r)
                    if kind == "scalar" and not hasattr(q, "expr"):
                        res = q
                        pushed = True
                    else:
                        opt = q.optimize()
                        pushed = any(
                            type(e).__name__.startswith(("ReadParquet", "Fused")) and (
                                (hasattr(e, "operand") and "filters" in type(e)._parameters and e.operand("filters") is not None)
                                or (hasattr(e, "operand") and "columns" in type(e)._parameters and e.operand("columns") is not None)
                                or type(e).__name__.startswith("Fused"))
                            for e in opt.expr.walk())
                        res = plans.execute(opt.expr)[0]
                except Exception as e:
                    fail("query-raises", f"{label}: {type(e).__name__}: {e} (the in-memory selection works)", hint="raises:" + label.split("[")[0], exc=e, only=label)
                    continue
                if kind == "index":
                    if iname is None:
                        res = res.rename(None)
                    d = equiv(pd.Series(res).sort_values(ignore_index=True), pd.Series(exp).sort_values(ignore_index=True), order=True, index=False, dtypes="none")
                elif kind == "scalar":
                    d = equiv(res, exp)
                else:
                    if hasattr(res, "index") and iname is None and res.index.name == "__null_dask_index__":
                        res.index.name = None
                    d = _multiset_equal(res, exp, order=False, index=True)
                if d is not None:
                    fail("pushdown-differs", f"{label}: optimized query != in-memory selection: {d}", hint="q:" + label.split("[")[1].split("]")[0] if "[" in label else "q:" + label, only=label)
                elif pushed and nfiles >= 2:
                    nts.append(f"{h}:{reader}:{calc_div}:{label}")
            # user filters= combined with pushed predicates (pyarrow semantics: null -> dropped)
            if not only or only.startswith("user"):
                ufs = []
                if "k" in pdf.columns:
                    ufs.append(([("k", ">", 0)], lambda d: d[d.k > 0]))
                    ufs.append(([[("k", "==", 1)], [("k", ">", 2)]], lambda d: d[(d.k == 1) | (d.k > 2)]))
                if "f" in pdf.columns:
                    # (no user '!=' on a nullable column: the two readers disagree about nulls there and the
                    #  reader contract for user filters is not part of this property)
                    ufs.append(([("f", "<=", 0.5)], lambda d: d[d.f <= 0.5]))
                    ufs.append(([("f", ">", -1.0), ("k", "<", 3)], lambda d: d[(d.f > -1.0) & (d.k < 3)] if "k" in d.columns else d[d.f > -1.0]))
                for filt, pf in ufs:
                    try:
                        ru = read(filters=filt)
                        expu = pf(full)
                        for lab2, extra_fn in (("", lambda d: d), ("+k!=1", lambda d: d[d.k != 1] if "k" in d.columns else d), ("+g>=0|f>0", lambda d: d[(d.g >= 0) | (d.f > 0)] if "g" in d.columns and "f" in d.columns else d), ("+proj", lambda d: d[["rid"]])):
                            label = f"user{filt}{lab2}"
                            if only and only != label:
                                continue
                            res = plans.execute(extra_fn(ru).optimize().expr)[0]
                            if iname is None and res.index.name == "__null_dask_index__":
                                res.index.name = None
                            d = _multiset_equal(res, extra_fn(expu), order=False, index=True)
                            if d is not None:
                                fail("user-filter-differs", f"{label}: {d}", hint="userfilter" + lab2, only=label)
                            elif nfiles >= 2:
                                nts.append(f"{h}:{reader}:{calc_div}:{label}")
                    except Exception as e:
                        fail("query-raises", f"user filters {filt}: {type(e).__name__}: {e}", hint="raises:userfilter", exc=e)
            # partition subsets
            if not only or only.startswith("parts"):
                m = r.npartitions
                allparts = plans.execute(r.expr)[1]
                for P in ([0], [m - 1], list(range(m))[::-1], list(range(1, m)), [0, 0]):
                    if not P or max(P) >= m:
                        continue
                    for lab2, fn2 in (("", lambda d: d), ("+proj", lambda d: d[["rid"]])):
                        label = f"parts{P}{lab2}"
                        try:
                            opt = fn2(r).partitions[P].optimize()
                            sparts = plans.execute(opt.expr)[1]
                            if len(sparts) != len(P):
                                if len(plans.execute(fn2(r).optimize().expr)[1]) != m:
                                    classes.append("io_fusion_changes_partition_count")
                                    continue  # known finding D47, judged by C11
                                fail("partition-subset-count", f"{label}: {len(sparts)} partitions for {len(P)} selected", hint="parts")
                                continue
                            exp = pd.concat([fn2(allparts[i]) for i in P])
                            got2 = pd.concat(sparts) if sparts else exp.iloc[:0]
                            d = _multiset_equal(got2, exp, order=False, index=index_restored or True)
                            if d is not None:
                                fail("partition-subset-differs", f"{label}: {d}", hint="parts", only=label)
                            elif nfiles >= 2 and P != list(range(m)):
                                nts.append(f"{h}:{reader}:{calc_div}:{label}")
                        except Exception as e:
                            fail("query-raises", f"{label}: {type(e).__name__}: {e}", hint="raises:parts", exc=e)
                # head
                try:
                    hd = r.head(3, npartitions=-1)
                    exp = pd.concat(allparts).head(3)
                    d = equiv(hd, exp, order=True, index=True, dtypes="kindpromo")
                    if d is not None and iname is None:
                        hd.index.name = None
                        d = equiv(hd, exp, order=True, index=True, dtypes="kindpromo")
                    if d is not None:
                        fail("head-differs", f"head(3, npartitions=-1): {d}", hint="head")
                except Exception as e:
                    fail("query-raises", f"head: {type(e).__name__}: {e}", hint="raises:head", exc=e)
            # ---------------- (3) overwrite guard
            if not only:
                try:
                    before = sorted(os.listdir(path))
                    try:
                        (read()[["rid"]] if "rid" in pdf.columns else read()).to_parquet(path, overwrite=True)
                        fail("overwrite-not-refused", "to_parquet(same path, overwrite=True) of a query that reads that path succeeded", hint="overwrite")
                    except ValueError:
                        again = read(**({} if "index" in kw else {})).compute()
                        if len(again) != len(written) or sorted(os.listdir(path)) != before:
                            fail("overwrite-damaged-dataset", f"after the refused overwrite the dataset has {len(again)} rows (written {len(written)})", hint="overwrite")
                        else:
                            nts.append(f"{h}:{reader}:overwrite-refused")
                    other = os.path.join(root, "other")
                    read()[["rid"]].to_parquet(other, overwrite=True)
                    back = dx.read_parquet(other, **{k: v for k, v in kw.items() if k != "index"}).compute()
                    if sorted(back["rid"].tolist()) != sorted(written["rid"].tolist()):
                        fail("copy-differs", "writing the projected query to another path and reading it back lost rows", hint="overwrite")
                except Exception as e:
                    fail("query-raises", f"overwrite guard: {type(e).__name__}: {e}", hint="raises:overwrite", exc=e)
    finally:
        shutil.rmtree(root, ignore_errors=True)
    classes += [f"reader:{reader}", f"files:{min(nfiles, 6)}", "calc_div" if calc_div else "no_div", "index:" + str(spec["index"]["kind"]) + ("-named" if spec["index"].get("name") else "")]
    return {"nontrivial": sorted(set(nts)) or False, "classes": classes, "failures": failures, "sample": {"columns": spec["columns"], "nrows": len(spec["rows"]), "cuts": spec["cuts"], "index": spec["index"]["kind"], "reader": reader, "calc_div": calc_div},
            "evaluations": max(1, len(nts) + len(failures))}


def shrink_candidates(case):
    import copy

    spec = case["dataset"]
    # fewer files
    cuts = spec["cuts"]
    for j in range(len(cuts) - 1):
        c = copy.deepcopy(case)
        c["dataset"]["cuts"] = cuts[:j] + [cuts[j] + cuts[j + 1]] + cuts[j + 2:]
        yield c
    # fewer columns
    for ci, (cname, _) in enumerate(spec["columns"]):
        if cname == "rid" or len(spec["columns"]) <= 2:
            continue
        c = copy.deepcopy(case)
        c["dataset"]["columns"] = spec["columns"][:ci] + spec["columns"][ci + 1:]
        c["dataset"]["rows"] = [r[:ci] + r[ci + 1:] for r in spec["rows"]]
        yield c
    # fewer rows
    n = len(spec["rows"])
    for i in range(n):
        if n <= 1:
            break
        c = copy.deepcopy(case)
        d = c["dataset"]
        d["rows"] = d["rows"][:i] + d["rows"][i + 1:]
        if "values" in d["index"]:
            d["index"]["values"] = d["index"]["values"][:i] + d["index"]["values"][i + 1:]
        pos = 0
        newc = []
        for cc in d["cuts"]:
            newc.append(cc - 1 if pos <= i < pos + cc else cc)
            pos += cc
        d["cuts"] = newc
        for ri, row in enumerate(d["rows"]):
            pass
        yield c
