"""C03 — a filter keeps exactly the rows that satisfy the user's predicate
(DESIGN §3 C03).  Bounded-exhaustive predicate trees over atoms whose inputs
take every valuation (true / false / missing), crossed with every operator
kind a filter can be moved across, incl. the join legality table."""
import itertools

import numpy as np
import pandas as pd

from .. import plans
from ..runner import Failure

LEVEL = "exploration"
RULE = (
    "valuation table: one row per element of {true,false,missing}^4 for the inputs of 4 base atoms (x>0, y!=1, z.isin([1,2]), w.isna()) = 81 rows + unique rid, key k, string s, "
    "cut into 4 partitions (and a layout with an empty partition); extra atoms: x>y (column vs column), x>x.mean() (column vs reduction), s=='a', index>40. "
    "Predicate trees: ALL formulas with <=2 binary connectives (&,|) over <=3 distinct atoms with optional negation of each literal (both association shapes), ALL OR-of-AND shapes with 2-3 "
    "branches of 1-2 ordered literals over the 4 base atoms (common conjunct in all / some / no branches), stacked filters [p][q][r]. Contexts: plain, projection before/after, assign, "
    "rename, fillna, astype, reset_index (incl. predicate on the former index), to_frame, sort_values, set_index, shuffle, repartition, concat, second consumer of the filtered frame, "
    "and merge: how in {inner,left,right,outer,leftsemi} x predicate side {left-only, right-only, key, both, suffixed x_x/x_y} x suffixes {default, ('','_r'), ('_l','')} with unmatched and null keys "
    "on both sides. Oracle: rid multiset after optimize() (simplified-logical and fused stages) == pandas selection on the unfiltered context output. "
    "non-trivial = simplify changed the plan (the filter was moved / restructured); distinct by (context, predicate)"
)
ASSUMPTIONS = ["pandas boolean semantics define the reference (comparison with missing -> False, != with missing -> True)", "leftsemi reference = left rows whose key occurs in the right frame"]
BUDGET_S = {"quick": 170, "thorough": 900}

# ----------------------------------------------------------------- data

VALS = {
    "x": [1.0, -1.0, np.nan],  # x > 0 : T F null
    "y": [2.0, 1.0, np.nan],  # y != 1: T F null(->True)
    "z": [1.0, 5.0, np.nan],  # z.isin([1,2])
    "w": [np.nan, 1.0, 3.0],  # w.isna()
}


def base_table():
    rows = list(itertools.product(range(3), repeat=4))
    pdf = pd.DataFrame({c: [VALS[c][r[i]] for r in rows] for i, c in enumerate("xyzw")})
    n = len(pdf)
    pdf["rid"] = np.arange(n)
    pdf["k"] = (np.arange(n) * 7) % 6
    pdf["perm"] = (np.arange(n) * 37) % n  # a permutation of 0..n-1 (n = 81): a sort key without ties
    pdf["s"] = pd.array([None if i % 5 == 0 else "ab"[i % 2] for i in range(n)], dtype="string[pyarrow]")
    pdf.index = pd.Index(np.arange(n) + 10, name=None)
    return pdf


def right_table():
    # keys 1..7: 0 unmatched on the left side, 6,7 unmatched on the right; duplicates; a null key on both sides is added below
    n = 9
    pdf = pd.DataFrame({"k": [1, 2, 2, 3, 4, 5, 6, 7, 1], "x": [1.0, -1.0, np.nan, 2.0, -3.0, 1.0, np.nan, 4.0, -2.0], "q": [1.0, 2.0, np.nan, -1.0, 0.5, np.nan, 3.0, -2.0, 0.0], "rrid": np.arange(n)})
    return pdf


ATOMS = {
    "A": lambda f, c: f[c("x")] > 0,
    "B": lambda f, c: f[c("y")] != 1,
    "C": lambda f, c: f[c("z")].isin([1, 2]),
    "D": lambda f, c: f[c("w")].isna(),
    "E": lambda f, c: f[c("x")] > f[c("y")],
    "F": lambda f, c: f[c("x")] > f[c("x")].mean(),
    "S": lambda f, c: f[c("s")] == "a",
    "K": lambda f, c: f[c("k")] >= 3,
    "Q": lambda f, c: f[c("q")] > 0,
    "XR": lambda f, c: f[c("x#r")] > 0,  # the right frame's x in merges
    # position dependent atoms: only meaningful where the row order is defined by the query
    "P": lambda f, c: f[c("rid")].cumsum() > 1000,
    "H": lambda f, c: f[c("x")].shift(1) > 0,
    "I": lambda f, c: f.index.to_series() > 40,
    "IC": lambda f, c: f[c("index")] > 40,
}


def ev(pred, f, c):
    if isinstance(pred, str):
        if pred.startswith("~"):
            return ~ATOMS[pred[1:]](f, c)
        return ATOMS[pred](f, c)
    op, a, b = pred
    if op == "&":
        return ev(a, f, c) & ev(b, f, c)
    return ev(a, f, c) | ev(b, f, c)


def atoms_of(pred):
    if isinstance(pred, str):
        return {pred.lstrip("~")}
    return atoms_of(pred[1]) | atoms_of(pred[2])


# ----------------------------------------------------------------- formula enumeration


def formulas_small(pool):
    out = []
    lits = lambda a: [a, "~" + a]
    for a in pool:
        out += lits(a)
    for a, b in itertools.combinations(pool, 2):
        for la in lits(a):
            for lb in lits(b):
                for op in "&|":
                    out.append((op, la, lb))
    for a, b, c in itertools.combinations(pool, 3):
        for la in lits(a):
            for lb in lits(b):
                for lc in lits(c):
                    for o1 in "&|":
                        for o2 in "&|":
                            out.append((o2, (o1, la, lb), lc))
                            out.append((o1, la, (o2, lb, lc)))
    return out


def or_of_ands(pool, max_branches):
    lits = [a for a in pool] + ["~" + pool[0]]
    branches = [l for l in lits] + [("&", a, b) for a, b in itertools.permutations(lits, 2) if a.lstrip("~") != b.lstrip("~")]
    out = []
    for nb in range(2, max_branches + 1):
        for combo in itertools.product(branches, repeat=nb):
            p = combo[0]
            for b in combo[1:]:
                p = ("|", p, b)
            out.append(p)
    return out


# ----------------------------------------------------------------- contexts

IDENT = lambda name: name


def ctx_plain(df, side):
    return df, IDENT


def ctx_proj(df, side):
    return df[["x", "y", "z", "w", "s", "k", "rid"]], IDENT


def ctx_assign(df, side):
    return df.assign(v=df.x + 1, x=df.x * 1), IDENT


def ctx_rename(df, side):
    return df.rename(columns={"x": "x2", "w": "w2"}), lambda n: {"x": "x2", "w": "w2"}.get(n, n)


def ctx_fillna(df, side):
    # every filled value changes the outcome of its atom (A: x > 0, C: z in [1, 2], D: w.isna())
    return df.fillna({"z": 1.0, "x": 2.0, "w": 0.0}), IDENT


def ctx_astype_trunc(df, side):
    # the conversion changes values: 0.4 -> 0 (A), 1.6 -> 1 (C)
    return df.fillna({"x": 0.4, "z": 1.6}).astype({"x": "int64", "z": "int64"}), IDENT


def ctx_sort_perm(df, side):
    return df.sort_values("perm"), IDENT


def ctx_set_index_perm(df, side):
    if side == "pandas":
        return df.set_index("perm", drop=False).sort_index(), IDENT
    return df.set_index("perm", drop=False), IDENT


def ctx_astype(df, side):
    return df.astype({"k": "float64"}), IDENT


def ctx_reset_index(df, side):
    return df.reset_index(), IDENT


def ctx_sort(df, side):
    return df.sort_values("rid", ascending=False), IDENT


def ctx_set_index(df, side):
    if side == "pandas":
        return df.set_index("rid", drop=False).sort_index(), IDENT
    return df.set_index("rid", drop=False), IDENT


def ctx_shuffle(df, side):
    return (df if side == "pandas" else df.shuffle("k", npartitions=3)), IDENT


def ctx_repartition(df, side):
    return (df if side == "pandas" else df.repartition(npartitions=2)), IDENT


def ctx_concat(df, side):
    if side == "pandas":
        return pd.concat([df, df]), IDENT
    import dask_expr as dx

    return dx.concat([df, df]), IDENT


def ctx_map_partitions(df, side):
    from .. import udfs

    return (udfs.identity(df) if side == "pandas" else df.map_partitions(udfs.identity)), IDENT


CONTEXTS = {
    "plain": ctx_plain, "proj": ctx_proj, "assign": ctx_assign, "rename": ctx_rename, "fillna": ctx_fillna, "astype": ctx_astype, "reset_index": ctx_reset_index,
    "sort_values": ctx_sort, "set_index": ctx_set_index, "astype_trunc": ctx_astype_trunc, "sort_perm": ctx_sort_perm, "set_index_perm": ctx_set_index_perm, "shuffle": ctx_shuffle, "repartition": ctx_repartition, "concat": ctx_concat, "map_partitions": ctx_map_partitions,
}
CORE_CTX = ["plain", "proj", "assign", "rename", "reset_index", "sort_values", "shuffle", "concat", "fillna", "astype_trunc"]
# contexts whose result has a row order defined by the query (position dependent predicates are well posed there)
ORDERED_CTX = ["plain", "proj", "assign", "rename", "fillna", "astype", "astype_trunc", "reset_index", "sort_values", "sort_perm", "set_index", "set_index_perm", "repartition", "map_partitions"]

MERGE_PREDS = {
    "left-only": ["A", ("&", "B", "C"), ("|", "A", "D")],
    "right-only": ["Q", "~Q"],
    "key": ["K", "~K"],
    "both": [("&", "A", "Q"), ("|", "B", "Q"), ("&", "K", ("|", "A", "Q"))],
    "suffixed": ["A", "XR", ("&", "A", "XR"), ("|", "~A", "XR")],
}


def systematic(tier):
    cases = []
    base4 = ["A", "B", "C", "D"]
    pool6 = ["A", "B", "C", "D", "E", "F"]
    small = formulas_small(pool6 if tier == "thorough" else ["A", "B", "C", "D", "F"])
    ctxs = list(CONTEXTS) if tier == "thorough" else CORE_CTX
    for ci, ctx in enumerate(ctxs):
        for fi, f in enumerate(small):
            if tier == "quick" and ctx not in ("plain", "proj") and (fi + ci) % 2:
                continue
            cases.append({"kind": "ctx", "ctx": ctx, "pred": f, "layout": (fi + ci) % 3})
    oa = or_of_ands(base4 if tier == "thorough" else ["A", "B", "C"], 3)
    for fi, f in enumerate(oa):
        if tier == "quick" and fi % 3:
            continue
        cases.append({"kind": "ctx", "ctx": ["plain", "proj", "assign"][fi % 3], "pred": f, "layout": fi % 3})
        if fi % 5 == 0:
            cases.append({"kind": "merge", "how": "inner", "side": "as_right_input", "pred": f, "suffixes": None, "second_consumer": False, "layout": 0})
    # other contexts with extra atoms
    for ctx in ctxs:
        for f in ["S", "~S", ("&", "S", "A"), ("|", "S", "D"), "K", ("&", "K", "B")]:
            cases.append({"kind": "ctx", "ctx": ctx, "pred": f, "layout": 1})
    for f in ["IC", ("&", "IC", "A"), ("|", "IC", "~B"), "~IC"]:
        cases.append({"kind": "ctx", "ctx": "reset_index", "pred": f, "layout": 0})
    for f in ["I", ("&", "I", "A"), ("|", "I", "D")]:
        for ctx in ("plain", "assign", "sort_values"):
            cases.append({"kind": "ctx", "ctx": ctx, "pred": f, "layout": 2})
    # position dependent predicates (cumsum / shift) in the contexts with a defined row order
    for ci, ctx in enumerate(ORDERED_CTX):
        for fi, f in enumerate(["P", "~P", ("&", "A", "P"), ("|", "P", "D"), "H", ("&", "H", "~B"), ("|", "H", "P")]):
            # shift() refuses frames with an empty partition (layout 1) with an explicit error
            cases.append({"kind": "ctx", "ctx": ctx, "pred": f, "layout": [0, 2][(fi + ci) % 2] if "H" in atoms_of(f) else (fi + ci) % 3})
    # stacked filters
    lits = ["A", "~A", "B", "~B", "C", "D", "F"]
    for p, q in itertools.permutations(lits, 2):
        cases.append({"kind": "stacked", "preds": [p, q], "layout": 0})
    for p, q, r in itertools.permutations(["A", "B", "~C", "D", "F"], 3):
        cases.append({"kind": "stacked", "preds": [p, q, r], "layout": 1})
    # second consumer of the filtered frame
    for ctx in ("plain", "assign", "rename", "shuffle"):
        for f in ["A", ("&", "A", "B"), ("|", "A", ("&", "B", "C")), "F", ("&", "F", "D")]:
            cases.append({"kind": "ctx", "ctx": ctx, "pred": f, "layout": 0, "second_consumer": True})
    # merge legality table
    for how in ("inner", "left", "right", "outer", "leftsemi"):
        for side, preds in MERGE_PREDS.items():
            if how == "leftsemi" and side in ("right-only", "both", "suffixed"):
                continue
            for f in preds:
                for suffixes in (None, ["", "_r"], ["_l", ""]):
                    if suffixes and side not in ("suffixed", "left-only", "both"):
                        continue
                    for second in (False, True):
                        cases.append({"kind": "merge", "how": how, "side": side, "pred": f, "suffixes": suffixes, "second_consumer": second, "layout": 0})
    return cases


# ----------------------------------------------------------------- execution


def dask_frame(pdf, layout):
    import dask_expr as dx
    from .. import udfs

    if layout == 0:
        return dx.from_pandas(pdf, npartitions=4, sort=False)
    if layout == 1:
        bounds = [(0, 30), (30, 30), (30, 31), (31, len(pdf))]
        return dx.from_map(udfs.iloc_slice, bounds, pdf=pdf, meta=pdf.iloc[:0])
    return dx.from_pandas(pdf, npartitions=7, sort=True)


def rids(res):
    if isinstance(res, pd.Series):
        res = res.to_frame()
    cols = [c for c in ("rid", "rid_x", "rrid", "rrid_y", "rid_y") if c in res.columns]
    vals = res[cols].astype("float64").fillna(-1.0)
    return sorted(map(tuple, vals.to_numpy().tolist()))


def check(case):
    import dask_expr as dx

    failures = []
    kind = case["kind"]
    pdf = base_table()
    second = case.get("second_consumer", False)
    try:
        if kind == "ctx":
            fn = CONTEXTS[case["ctx"]]
            pctx, pc = fn(pdf, "pandas")
            expect = pctx[ev(case["pred"], pctx, pc)]
            dctx, dc = fn(dask_frame(pdf, case["layout"]), "dask")
            q = dctx[ev(case["pred"], dctx, dc)]
            if second:
                expect = expect.assign(t=pctx[pc("rid")].max())
                q = q.assign(t=dctx[dc("rid")].max())
            label = (case["ctx"] + ("+2nd" if second else ""), case["pred"])
        elif kind == "stacked":
            expect = pdf
            q = dask_frame(pdf, case["layout"])
            for p in case["preds"]:
                expect = expect[ev(p, expect, IDENT)]
                q = q[ev(p, q, IDENT)]
            label = ("stacked", tuple(case["preds"]))
        else:
            L = pdf.copy()
            L.loc[L.index[:3], "k"] = [0, 0, 9]
            Lk = L.astype({"k": "float64"})
            Lk.loc[Lk.index[5], "k"] = np.nan
            R = right_table().astype({"k": "float64"})
            R.loc[R.index[-1], "k"] = np.nan
            how = case["how"]
            kw = {"on": "k"}
            if case["suffixes"]:
                kw["suffixes"] = tuple(case["suffixes"])
            dl, dr = dask_frame(Lk, 0), dx.from_pandas(R, npartitions=2, sort=False)
            lsuf, rsuf = (case["suffixes"] or ["_x", "_y"])
            cmap = lambda n: {"x": "x" + lsuf, "x#r": "x" + rsuf}.get(n, n)
            if case["side"] == "as_right_input":
                # the filtered frame is the RIGHT input of a merge
                Rf = Lk[ev(case["pred"], Lk, IDENT)]
                expect = R.rename(columns={"x": "xr"}).merge(Rf, on="k", how="inner")
                drf = dl[ev(case["pred"], dl, IDENT)]
                q = dr.rename(columns={"x": "xr"}).merge(drf, on="k", how="inner", shuffle_method="tasks")
            else:
                if how == "leftsemi":
                    keys = R[["k"]].drop_duplicates()
                    pm = Lk.merge(keys, on="k", how="inner")
                    cmap = IDENT
                else:
                    pm = Lk.merge(R, how=how, **kw)
                dm = dl.merge(dr, how=how, shuffle_method="tasks", **kw)
                expect = pm[ev(case["pred"], pm, cmap)]
                q = dm[ev(case["pred"], dm, cmap)]
                if second:
                    expect = expect.assign(t=pm[cmap("rid")].count())
                    q = q.assign(t=dm[cmap("rid")].count())
            label = (f"merge-{how}-{case['side']}-{case['suffixes']}" + ("+2nd" if second else ""), case["pred"])
    except Exception as e:
        raise
    want = rids(expect)
    expr = q.expr
    fired = False
    for stage in ("simplified-logical", "fused"):
        try:
            se = plans.optimize_until(expr, stage)
            if stage == "simplified-logical" and se._name != expr._name:
                fired = True
            res = plans.execute(se)[0]
        except Exception as e:
            failures.append(Failure("filter-query-raises", f"{label}: stage {stage} raised {type(e).__name__}: {e}", stage=stage, exc=e).record())
            break
        got = rids(res)
        if got != want:
            missing = [r for r in want if r not in got][:5]
            extra = [r for r in got if r not in want][:5]
            failures.append(Failure("filter-rows-differ", f"{label}: stage {stage} returns {len(got)} rows, pandas selection has {len(want)}; missing rids {missing}, extra rids {extra}",
                                    stage=stage, extra={"bucket_hint": f"{label[0].split('+')[0].split('-None')[0]}"}).record())
            break
    classes = ["kind:" + kind, "ctx:" + str(label[0])]
    classes.append("filter_moved" if fired else "filter_not_moved")
    return {"failures": failures, "nontrivial": [repr(label)] if fired else False, "classes": classes, "sample": case, "evaluations": 1}


def coverage_extra(tier, agg):
    return {"exhaustive": agg["skipped_budget"] == 0, "bounds": {"atoms": sorted(ATOMS), "valuation_rows": 81, "connectives<=": 2, "or_of_and_branches<=": 3}}
