"""C19 — optimization terminates, is deterministic and idempotent (DESIGN §3 C19)."""
import signal

from .. import gen, interp, plans, templates
from .. import ops as O
from ..compare import equiv
from ..runner import Failure
from . import c01

LEVEL = "exploration"
RULE = (
    "C01 program space (rule-trigger templates x layouts + Hypothesis programs). (1) termination: the harness drives the public fixed-point loops itself "
    "(simplify_once with collect_dependents; lower_once) and requires passes <= 8 + 4*#expressions; optimize() must not raise 'does not converge'; a 120 s watchdog only marks "
    "a case inconclusive. (2) determinism: optimizing the same collection twice, and a second independently built copy of the query, gives the same plan name and tree. "
    "(3) idempotence: optimize(optimize(q)), optimize(optimize(q, fuse=False)), optimize_until(optimize_until(e, s1), s2) and f(optimize(prefix)) all compute the result of the "
    "unoptimized query. non-trivial = simplify needed >= 2 passes; distinct by program hash"
)
ASSUMPTIONS = c01.ASSUMPTIONS + ["names of queries containing dask.delayed sources are not compared across rebuilds (delayed keys are random by design)"]
BUDGET_S = {"quick": 170, "thorough": 900}
# multi-input operators whose operands may be optimized independently of each other
FREE_OPERANDS = {"bcast_scalar", "scalar_binop", "merge", "merge_lr", "merge_leftsemi", "join_list", "concat0"}


def systematic(tier):
    return templates.c01_cases(tier)


def strategy(tier):
    return c01.strategy(tier)


def n_random(tier):
    return 2000 if tier == "quick" else 12000


class _Timeout(Exception):
    pass


def _alarm(signum, frame):
    raise _Timeout()


def count_simplify(expr, bound):
    from dask_expr._core import collect_dependents

    seen = set()
    n = 0
    while True:
        dependents = collect_dependents(expr)
        new = expr.simplify_once(dependents=dependents, simplified={})
        n += 1
        if new._name == expr._name:
            return expr, n, None
        if new._name in seen:
            return expr, n, "cycle: a plan re-appeared after simplify_once"
        seen.add(new._name)
        expr = new
        if n > bound:
            return expr, n, f"more than {bound} simplify passes"


def count_lower(expr, bound):
    n = 0
    while True:
        new = expr.lower_once()
        n += 1
        if new._name == expr._name:
            return expr, n, None
        expr = new
        if n > bound:
            return expr, n, f"more than {bound} lowering passes"


def check(case):
    prog = case
    out_id = prog["out"][0]
    failures = []
    classes = []
    nt = False
    with plans.config(prog.get("config")):
        pvals = interp.run_pandas(prog)
        flags = interp.static_flags(prog, pvals)
        fl = flags[out_id]
        try:
            dvals = interp.run_dask(prog)
            coll = dvals[out_id]
            expr = coll.expr
            ref = plans.execute(expr)[0]
        except Exception as e:
            return {"nontrivial": False, "classes": ["unoptimized_fails:" + type(e).__name__], "counters": {"unoptimized_fails": 1}}
        alt = c01.alternative_result(prog, flags, dvals)
        nexpr = len(list(expr.walk()))
        bound = 8 + 4 * nexpr
        old = signal.signal(signal.SIGALRM, _alarm)
        signal.alarm(120)
        try:
            # (1) termination
            try:
                s1, n1, why = count_simplify(expr, bound)
                if why:
                    failures.append(Failure("simplify-unbounded", f"{why} on a plan of {nexpr} expressions", extra={"bucket_hint": "simplify"}).record())
                if n1 >= 3:
                    nt = True  # >= 2 productive passes + the confirming one
                classes.append(f"simplify_passes:{min(n1, 6)}")
                t1 = s1.rewrite(kind="tune")
                l1, n2, why = count_lower(t1, 8 + 4 * len(list(t1.walk())))
                if why:
                    failures.append(Failure("lower-unbounded", why, extra={"bucket_hint": "lower"}).record())
                classes.append(f"lower_passes:{min(n2, 6)}")
                s2, n3, why = count_simplify(l1, 8 + 4 * len(list(l1.walk())))
                if why:
                    failures.append(Failure("simplify-unbounded", f"second simplify: {why}", extra={"bucket_hint": "simplify2"}).record())
            except _Timeout:
                raise
            except RuntimeError as e:
                if "converge" in str(e):
                    failures.append(Failure("does-not-converge", str(e)[:300], exc=e).record())
            except Exception:
                pass  # a rule that raises is C01's business
            try:
                o1 = coll.optimize()
                o1b = coll.optimize()
            except _Timeout:
                raise
            except RuntimeError as e:
                if "converge" in str(e):
                    failures.append(Failure("does-not-converge", str(e)[:300], exc=e).record())
                return {"nontrivial": False, "classes": classes + ["optimize_raises"], "failures": failures}
            except Exception:
                return {"nontrivial": False, "classes": classes + ["optimize_raises"], "failures": failures}
            # (2) determinism
            if o1._name != o1b._name or o1.expr.tree_repr() != o1b.expr.tree_repr():
                failures.append(Failure("nondeterministic-plan", f"optimizing the same collection twice gave {o1._name} and {o1b._name}", extra={"bucket_hint": "same-object"}).record())
            random_names = any((t.get("layout") or {}).get("kind") == "from_delayed" for t in prog["tables"]) or any(s["op"] == "cut" for s in prog["steps"])
            if not random_names:
                d2 = interp.run_dask(prog)[out_id]
                if d2._name != coll._name:
                    failures.append(Failure("nondeterministic-name", f"building the same query twice gave names {coll._name} and {d2._name}", extra={"bucket_hint": "rebuild-name"}).record())
                else:
                    o2 = d2.optimize()
                    if o2._name != o1._name:
                        failures.append(Failure("nondeterministic-plan", f"two builds of the same query optimize to {o1._name} and {o2._name}", extra={"bucket_hint": "rebuild"}).record())
            # (3) idempotence

            def same(res, what):
                d = equiv(res, ref, order=fl.ordered, index=fl.indexed, dtypes="promo")
                if d is not None and alt is not None and equiv(res, alt, order=fl.ordered, index=fl.indexed, dtypes="promo") is None:
                    d = None
                if d is not None:
                    failures.append(Failure("not-idempotent", f"{what}: {d}", extra={"bucket_hint": what.split(' ')[0]}).record())

            variants = [
                ("optimize(optimize(q))", lambda: o1.optimize().expr),
                ("optimize(optimize(q,fuse=False))", lambda: coll.optimize(fuse=False).optimize().expr),
                ("until(until(simplified-logical),fused)", lambda: plans.optimize_until(plans.optimize_until(expr, "simplified-logical"), "fused")),
                ("until(until(physical),fused)", lambda: plans.optimize_until(plans.optimize_until(expr, "physical"), "fused")),
                ("until(until(tuned-logical),simplified-physical)", lambda: plans.optimize_until(plans.optimize_until(expr, "tuned-logical"), "simplified-physical")),
            ]
            for what, build in variants:
                try:
                    e2 = build()
                    res = plans.execute(e2)[0]
                except _Timeout:
                    raise
                except RuntimeError as e:
                    if "converge" in str(e):
                        failures.append(Failure("does-not-converge", f"{what}: {str(e)[:300]}", exc=e).record())
                    else:
                        failures.append(Failure("reoptimize-raises", f"{what} raised {type(e).__name__}: {e}", exc=e).record())
                    continue
                except Exception as e:
                    failures.append(Failure("reoptimize-raises", f"{what} raised {type(e).__name__}: {e}", exc=e).record())
                    continue
                same(res, what)
            # continue building on an optimized prefix
            if prog["steps"] and fl.defined:
                last = prog["steps"][-1]
                if last["id"] == out_id and last["op"] not in ("cut",):
                    try:
                        objs = []
                        for i in last["in"]:
                            objs.append(dvals[i].optimize())
                        # co-aligned operands must stay co-aligned: multi-input steps only where the operands
                        # are combined by value (scalars) or by key (merges, concat along rows)
                        if len(objs) == 1 or last["op"] in FREE_OPERANDS:
                            c2 = O.OPS[last["op"]].apply("dask", objs, last.get("args", {}))
                            res = plans.execute(c2.optimize().expr)[0]
                            same(res, "f(optimize(prefix))")
                            classes.append("continued_on_optimized")
                    except _Timeout:
                        raise
                    except Exception as e:
                        failures.append(Failure("continue-on-optimized-raises", f"{last['op']} on an optimized collection raised {type(e).__name__}: {e}", exc=e).record())
        except _Timeout:
            classes.append("watchdog_inconclusive")
            return {"nontrivial": False, "classes": classes, "failures": failures, "counters": {"watchdog_inconclusive": 1}}
        finally:
            signal.alarm(0)
            signal.signal(signal.SIGALRM, old)
    classes += ["op:" + s["op"] for s in prog["steps"]]
    return {"nontrivial": nt, "classes": classes, "failures": failures, "sample": interp.describe(prog), "evaluations": 1}


def shrink_candidates(case):
    from ..shrink import program_candidates

    return program_candidates(case)
