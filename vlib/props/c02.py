"""C02 — results equal the pandas meaning of the query for every partitioning
(DESIGN §3 C02).  (a) operator catalogue x ALL cuts of a small adversarial
table (incl. empty partitions, known/unknown divisions, independent layouts
for two-input operators); (b) random multi-step programs with random layouts."""
import copy
import warnings

from .. import gen, interp, plans, templates
from .. import tables as T
from ..compare import equiv
from ..runner import Failure
from ..templates import S, P

LEVEL = "exploration"
RULE = (
    "(a) catalogue of ~390 one/two/three-operator templates over all operator families (elementwise incl. method operators / ufuncs / query / eval / row-wise reductions, reductions, groupby aggregate/apply/transform/cumulative/median/cov/pivot_table also by the index name, joins of every kind and key "
    "placement, concat, sort_values/set_index, cumulative, shift/diff/fill/rolling windows, mis-aligned binary ops, drop_duplicates/unique/value_counts, nlargest/nsmallest, loc, head) x the "
    "8-row adversarial table cut in ALL 2^7 ways (unknown divisions; the quick tier takes every third cut plus a 1/9 sample of the others), all cuts with known divisions, cuts with an empty partition inserted, and for two-input templates all cuts of A x 3 cuts of B "
    "plus 8 cuts of A x all 16 cuts of the 5-row table B; (b) Hypothesis-generated multi-step programs with an independent random layout per input. Oracle: the same operation sequence applied by "
    "pandas to the concatenated input (row order / index compared only where the query defines them; dtype kinds). Explicit documented refusals are counted, not violations. "
    "non-trivial = >= 2 non-empty partitions and the template is not partition-local; distinct by (template, cuts)"
)
ASSUMPTIONS = ["approximate operators (quantile, describe, nunique_approx) are not compared with pandas", "pandas runs on the pyarrow-string version of the input", "float tolerance rtol=1e-9 atol=1e-12"]
BUDGET_S = {"quick": 200, "thorough": 1000}

REFUSALS = (
    "Partition size is less than overlapping window size",
    "Cannot index with list against unknown division",
    "Cannot repartition on divisions with unknown divisions",
    "All NaN partition encountered in `fillna`",
    "Can only rolling dataframes with known divisions",
    "not all divisions are known",
    "Not all divisions are known",
    "contains null values",
    "exact median",
    "See the `median_approximate`",
    "Unable to compare",
    "can't align partitions",
    "non-aligned",
    "overlapping window size",
)


def catalogue():
    """list of dict(name, steps, out, fam)"""
    C = []

    def add(name, fam, steps, out=None):
        C.append({"name": name, "fam": fam, "steps": steps, "out": out or steps[-1]["id"]})

    # re-use the rule-trigger templates (they are ordinary queries, too)
    for t in templates._templates():
        n = t["name"]
        fam = ("join" if n.startswith("merge") else "groupby" if n.startswith("groupby") else "concat" if n.startswith("concat") else "sort" if n.startswith(("sort", "set_index", "shuffle", "nlargest")) else
               "window" if n in ("cumsum", "cummax-int", "shift", "diff-proj", "ffill") else "reduction" if any(k in n for k in ("reduc", "nunique", "value_counts", "unique", "drop_dup")) else
               "headtail" if "head" in n or "tail" in n else "loc" if n.startswith("loc") else "local")
        if any(s["op"] in ("cut", "partitions") or (s["op"] == "head" and not (s["args"]["how"] == "head" and s["args"]["npartitions"] == -1)) for s in t["steps"]):
            continue  # no pandas meaning (partition-dependent by definition)
        C.append({"name": n, "fam": fam, "steps": t["steps"], "out": t["out"]})
    # reductions on every reducible kind
    for how in ("sum", "min", "max", "mean", "count", "var", "std", "nunique", "size"):
        add(f"red-series-{how}", "reduction", [S("v1", "col", ["A"], col="f"), S("v2", "reduce", ["v1"], how=how, split_every=None)])
        if how not in ("nunique", "size"):
            add(f"red-frame-{how}", "reduction", [S("v1", "cols", ["A"], cols=["f", "g", "i"]), S("v2", "reduce", ["v1"], how=how, split_every=2)])
    for how in ("any", "all", "sum"):
        add(f"red-bool-{how}", "reduction", [S("v1", "col", ["A"], col="b"), S("v2", "reduce", ["v1"], how=how, split_every=None)])
    add("red-str-nunique", "reduction", [S("v1", "col", ["A"], col="s"), S("v2", "reduce", ["v1"], how="nunique", split_every=None)])
    for how in ("idxmax", "idxmin"):
        add(f"idx-{how}", "reduction", [S("v1", "col", ["A"], col="i"), S("v2", "idx_extreme", ["v1"], how=how)])
    # groupby families
    for how in ("sum", "min", "max", "count", "mean", "size", "first", "last", "var", "std", "nunique"):
        for by in (["k"], ["s"], ["k", "s"]):
            add(f"gb-{how}-{'_'.join(by)}", "groupby", [S("v1", "groupby_agg", ["A"], by=by, col="f", how=how, split_out=1, sort=None)])
        add(f"gb-{how}-split2", "groupby", [S("v1", "groupby_agg", ["A"], by=["k"], cols=["f", "i"], how=how, split_out=2, sort=None)])
    for how in ("idxmax", "idxmin"):
        # 'i' and 'rid' are unique, so there are no ties
        add(f"gb-{how}", "groupby", [S("v1", "groupby_agg", ["A"], by=["k"], col="i", how=how, split_out=1, sort=None)])
        add(f"gb-{how}-2keys", "groupby", [S("v0", "dropna", ["A"], subset=["s"]), S("v1", "groupby_agg", ["v0"], by=["k", "s"], col="rid", how=how, split_out=1, sort=None)])
    for how in ("cumsum", "cumcount", "cumprod", "shift", "ffill", "bfill", "transform_sum", "apply_demean"):
        add(f"gbw-{how}", "groupby", [S("v1", "groupby_window", ["A"], by="k", col="f", how=how)])
        add(f"gbw-{how}-strkey", "groupby", [S("v0", "dropna", ["A"], subset=["s"]), S("v1", "groupby_window", ["v0"], by="s", col="i", how=how)])
    for how in ("median", "prod", "cov", "corr"):
        add(f"gbh-{how}", "groupby", [S("v1", "groupby_holistic", ["A"], by=["k"], cols=["f", "i"], how=how, series=False)])
        if how in ("median", "prod"):
            add(f"gbh-{how}-series-strkey", "groupby", [S("v0", "dropna", ["A"], subset=["s"]), S("v1", "groupby_holistic", ["v0"], by=["s"], cols=["g"], how=how, series=True)])
    for how in ("cov", "corr"):
        add(f"gbh-{how}-complete", "groupby", [S("v1", "groupby_holistic", ["A"], by=["k"], cols=["i", "m"], how=how, series=False)])
    for agg in ("sum", "mean", "count"):
        add(f"pivot-{agg}", "groupby", [S("v0", "dropna", ["A"], subset=["s"]), S("v1", "pivot_table", ["v0"], index="k", columns="s", values="i", aggfunc=agg)])
    # row-wise families that must not care about the cut at all
    for how in ("sum", "mean", "var", "count", "max"):
        add(f"rowred-{how}", "local", [S("v1", "row_reduce", ["A"], cols=["f", "g", "i"], how=how)])
    for m in ("floordiv", "mod", "pow", "rtruediv", "ge", "ne"):
        add(f"method-{m}", "local", [S("v1", "cols", ["A"], cols=["f", "i"]), S("v2", "method_op", ["v1"], m=m, c=2, form="method")])
    add("method-fill", "local", [S("v1", "col", ["A"], col="f"), S("v2", "method_op", ["v1"], m="add", c=3, form="method", fill_value=1)])
    add("query-and", "local", [S("v1", "query", ["A"], q="f > 0 and k < 3")])
    add("query-or", "local", [S("v1", "query", ["A"], q="g <= 1 or i == 6")])
    add("eval-new", "local", [S("v1", "eval_assign", ["A"], e="ev = f * g + 1")])
    add("apply-rows", "local", [S("v1", "apply_rows", ["A"], cols=["f", "g", "i"])])
    add("case-when", "local", [S("v1", "col", ["A"], col="f"), S("v2", "case_when", ["v1"], c=0, v=9, cmp="gt")])
    add("explode-s", "local", [S("v1", "explode", ["A"], col="s")])
    add("frame-nunique", "reduction", [S("v1", "cols", ["A"], cols=["k", "s", "f"]), S("v2", "frame_nunique", ["v1"])])
    add("sample-all-sum", "reduction", [S("v1", "sample_all", ["A"]), S("v2", "col", ["v1"], col="i"), S("v3", "reduce", ["v2"], how="sum", split_every=None)])
    for labels in ([5, 1, 3], [0, 7], [2]):
        add(f"loc-list-{'_'.join(map(str, labels))}", "loc", [S("v1", "loc_list", ["A"], labels=labels)])
    # windows
    for f in ("cumsum", "cummax", "cummin", "cumprod"):
        add(f"cum-series-{f}", "window", [S("v1", "col", ["A"], col="f"), S("v2", "cum", ["v1"], f=f)])
        add(f"cum-int-{f}", "window", [S("v1", "col", ["A"], col="i"), S("v2", "cum", ["v1"], f=f)])
        add(f"cum-frame-{f}", "window", [S("v1", "cols", ["A"], cols=["f", "i"]), S("v2", "cum_frame", ["v1"], f=f)])
    for per in (1, -1, 2, 3):
        add(f"shift-{per}", "window", [S("v1", "cols", ["A"], cols=["f", "i"]), S("v2", "shift", ["v1"], f="shift", periods=per)])
        add(f"diff-{per}", "window", [S("v1", "col", ["A"], col="g"), S("v2", "shift", ["v1"], f="diff", periods=per)])
    for f in ("ffill", "bfill"):
        add(f"fill-{f}", "window", [S("v1", "cols", ["A"], cols=["f", "g"]), S("v2", "shift", ["v1"], f=f)])
    for w, mp, center, how in ((2, None, False, "sum"), (3, 1, False, "mean"), (3, None, True, "max"), (1, 1, False, "count"), (4, 2, True, "sum")):
        add(f"rolling-{w}-{mp}-{center}-{how}", "window", [S("v1", "cols", ["A"], cols=["f", "i"]), S("v2", "rolling", ["v1"], window=w, min_periods=mp, center=center, how=how)])
    # alignment
    for op in ("add", "sub", "gt"):
        add(f"misaligned-{op}", "misaligned", [S("v1", "col", ["A"], col="f"), S("v2", "col", ["A2"], col="g"), S("v3", "binop_misaligned", ["v1", "v2"], op=op)])
    add("misaligned-filtered", "misaligned", [S("v0", "filter_pred", ["A2"], pred=P("gt", "i", 2)), S("v1", "col", ["A"], col="i"), S("v2", "col", ["v0"], col="g"), S("v3", "binop_misaligned", ["v1", "v2"], op="add")])
    # joins of every kind and key placement
    for how in ("inner", "left", "right", "outer"):
        add(f"join-col-{how}", "join", [S("v1", "merge", ["A", "B"], on=["k"], how=how, suffixes=None, broadcast=None, shuffle_method="tasks")])
        add(f"join-col2-{how}", "join", [S("v1", "merge", ["A", "B"], on=["k", "s"], how=how, suffixes=None, broadcast=None, shuffle_method=None)])
        add(f"join-bcast-{how}", "join", [S("v1", "merge", ["A", "B"], on=["k"], how=how, suffixes=None, broadcast=True, shuffle_method=None)])
        add(f"join-index-{how}", "join", [S("v1", "cols", ["A"], cols=["f", "k"]), S("v2", "cols", ["A2"], cols=["g", "rid"]), S("v3", "merge_index", ["v1", "v2"], how=how)])
        add(f"join-index-filtered-{how}", "join", [S("v0", "filter_pred", ["A2"], pred=P("gt", "i", 2)), S("v1", "cols", ["A"], cols=["f", "k"]), S("v2", "cols", ["v0"], cols=["g", "rid"]), S("v3", "merge_index", ["v1", "v2"], how=how)])
        add(f"join-C-{how}", "join", [S("v1", "merge", ["A", "C"], on=["k"], how=how, suffixes=None, broadcast=None, shuffle_method=None)])
    add("concat0-AB", "concat", [S("v1", "concat0", ["A", "B"])])
    add("concat0-AA2", "concat", [S("v1", "concat0", ["A", "A2"])])
    # ordering
    for asc in (True, False):
        for na in ("last", "first"):
            add(f"sort-f-{asc}-{na}", "sort", [S("v1", "sort_values", ["A"], by=["f", "rid"], ascending=asc, na_position=na)])
        add(f"sort-s-k-{asc}", "sort", [S("v1", "sort_values", ["A"], by=["s", "rid"], ascending=asc, na_position="last")])
    for col in ("i", "k", "rid"):
        add(f"set_index-{col}", "sort", [S("v1", "set_index", ["A"], col=col, drop=True)])
    for col in ("m", "i"):
        add(f"set_index-sorted-{col}", "sort", [S("v1", "set_index", ["A"], col=col, drop=True, sorted=True)])
        add(f"set_index-sorted-{col}-keep", "sort", [S("v1", "set_index", ["A"], col=col, drop=False, sorted=True), S("v2", "cols", ["v1"], cols=["f", "rid"])])
    add("set_index-m-shuffle", "sort", [S("v1", "set_index", ["A"], col="m", drop=True)])
    add("sort-m", "sort", [S("v1", "sort_values", ["A"], by=["m", "rid"], ascending=True, na_position="last")])
    add("groupby-m-sum", "groupby", [S("v1", "groupby_agg", ["A"], by=["m"], col="f", how="sum", split_out=1, sort=None)])
    add("set_index-str", "sort", [S("v0", "dropna", ["A"], subset=["s"]), S("v1", "set_index", ["v0"], col="s", drop=False)])
    for n in (1, 3, 7):
        add(f"nlargest-{n}", "topk", [S("v1", "nlargest", ["A"], how="nlargest", n=n, col="i")])
        add(f"nsmallest-{n}", "topk", [S("v1", "nlargest", ["A"], how="nsmallest", n=n, col="rid")])
        add(f"head-all-{n}", "headtail", [S("v1", "head", ["A"], n=n, npartitions=-1, how="head")])
    add("dedup-frame", "dedup", [S("v1", "cols", ["A"], cols=["k", "b"]), S("v2", "drop_duplicates", ["v1"], split_out=1)])
    add("dedup-frame-split2", "dedup", [S("v1", "cols", ["A"], cols=["k", "s"]), S("v2", "drop_duplicates", ["v1"], split_out=2)])
    add("dedup-series", "dedup", [S("v1", "col", ["A"], col="s"), S("v2", "drop_duplicates", ["v1"], split_out=1)])
    add("vc-k", "dedup", [S("v1", "col", ["A"], col="k"), S("v2", "value_counts", ["v1"], split_out=1)])
    add("unique-s", "dedup", [S("v1", "col", ["A"], col="s"), S("v2", "unique", ["v1"])])
    for lo, hi in ((2, None), (None, 4), (1, 5), (3, 3), (6, 7)):
        add(f"loc-{lo}-{hi}", "loc", [S("v1", "loc_slice", ["A"], lo=lo, hi=hi)])
        add(f"loc-{lo}-{hi}-cols", "loc", [S("v1", "loc_slice", ["A"], lo=lo, hi=hi, cols=["g", "k"])])
    add("dropna-any", "local", [S("v1", "dropna", ["A"], how="any")])
    add("where-frame", "local", [S("v1", "cols", ["A"], cols=["f", "g"]), S("v2", "col", ["A"], col="b"), S("v3", "where", ["v1", "v2"], how="mask", other=-1)])
    add("reset_index-keep", "local", [S("v1", "reset_index", ["A"], drop=False)])
    add("astype-fillna-clip", "local", [S("v1", "astype", ["A"], to={"i": "float64"}), S("v2", "fillna", ["v1"], value={"f": 0.0, "g": 1.0}), S("v3", "col", ["v2"], col="f"), S("v4", "clip", ["v3"], lower=-1, upper=1)])
    # (new entries are appended: cases refer to catalogue positions)
    # grouping by the *name of the index* (values repeat: [0,0,1,2,2,3,5,5]); the cuts split runs of equal labels and the divisions are unknown
    IDX = {"kind": "int", "name": "idx", "values": [0, 0, 1, 2, 2, 3, 5, 5]}
    for how in ("transform_sum", "apply_demean", "shift", "cumsum", "cumcount"):
        C.append({"name": f"gbw-index-{how}", "fam": "groupby", "steps": [S("v1", "groupby_window", ["A"], by="idx", col="i", how=how)], "out": "v1", "index": IDX})
    for how in ("median", "prod"):
        C.append({"name": f"gbh-index-{how}", "fam": "groupby", "steps": [S("v1", "groupby_holistic", ["A"], by=["idx"], cols=["i", "f"], how=how, series=False)], "out": "v1", "index": IDX})
    for lo, hi in ((5, 2), (7, 0), (3, 2)):
        C.append({"name": f"loc-reversed-{lo}-{hi}", "fam": "loc", "steps": [S("v1", "loc_slice", ["A"], lo=lo, hi=hi)], "out": "v1"})
    for how in ("sum", "mean", "nunique", "var"):
        C.append({"name": f"gb-index-{how}", "fam": "groupby", "steps": [S("v1", "groupby_agg", ["A"], by=["idx"], col="f", how=how, split_out=1, sort=None)], "out": "v1", "index": IDX})
    return C


_CAT = None


def cat():
    global _CAT
    if _CAT is None:
        _CAT = catalogue()
    return _CAT


def systematic(tier):
    cases = []
    cutsA = T.all_cuts(8)
    cutsB = T.all_cuts(5)
    import zlib

    for ti, t in enumerate(cat()):
        two = any(i in ("B", "C", "A2") for s in t["steps"] for i in s["in"])
        for ci, cuts in enumerate(cutsA):
            if tier == "quick" and t["fam"] == "local" and ci % 8:
                continue
            if tier == "quick" and ci % 3 and (zlib.crc32(f"{ti}".encode()) + ci) % 9:
                continue
            cb = cutsB[(ci * 5 + ti) % len(cutsB)]
            cases.append({"t": ti, "cuts": cuts, "known": False, "cuts_b": cb})
            if ci % (2 if tier == "thorough" else 8) == 0:
                cases.append({"t": ti, "cuts": cuts, "known": True, "cuts_b": cb})
            if ci % (4 if tier == "thorough" else 16) == 1:
                pos = (ci + ti) % (len(cuts) + 1)
                cases.append({"t": ti, "cuts": cuts[:pos] + [0] + cuts[pos:], "known": False, "cuts_b": cb})
        if two:
            for ci in range(0, len(cutsA), 16 if tier == "thorough" else 32):
                for cb in cutsB:
                    cases.append({"t": ti, "cuts": cutsA[ci], "known": (ci // 16) % 2 == 0, "cuts_b": cb})
    return cases


PROFILE_Q = gen.Profile("pandas-meaning", max_steps=5, max_rows=10, need_pandas_ok=True, exclude=("partitions", "cut"),
                        weights={"groupby_window": 1.5, "rolling": 1.0, "cum_frame": 0.5, "idx_extreme": 0.7, "binop_misaligned": 1.5, "merge": 3, "groupby_agg": 3, "cum": 1.5, "shift": 1.5, "sort_values": 2, "set_index": 2})
PROFILE_T = gen.Profile("pandas-meaning", max_steps=8, max_rows=16, n_tables=(1, 3), need_pandas_ok=True, exclude=("partitions", "cut"),
                        weights={"groupby_window": 1.5, "rolling": 1.0, "cum_frame": 0.5, "idx_extreme": 0.7, "binop_misaligned": 1.5, "merge": 3, "groupby_agg": 3, "cum": 1.5, "shift": 1.5, "sort_values": 2, "set_index": 2})


def strategy(tier):
    from hypothesis import strategies as st

    prof = PROFILE_Q if tier == "quick" else PROFILE_T
    return st.builds(_configure, gen.programs(prof), st.sampled_from(["tasks", "tasks", "disk"]))


def _configure(p, sh):
    """known findings D9 / D44 / D70 (order-dependent groupby operations under the disk shuffle) are excluded by construction: such a
    program runs under the tasks shuffle instead (counted as class known_shape_rerouted); the catalogue keeps the final-step canaries"""
    if sh == "disk":
        for s in p["steps"]:
            a = s.get("args", {})
            hows = {a.get("how")} | set((a.get("agg") or {}).values())
            if (s["op"] == "groupby_window" and a.get("how") in ("ffill", "bfill", "shift")) or (s["op"] == "groupby_agg" and (a.get("split_out") or 1) > 1 and hows & {"first", "last"}):
                return dict(p, config={"shuffle": "tasks"}, rerouted=True)
    return dict(p, config={"shuffle": sh})


def n_random(tier):
    return 800 if tier == "quick" else 8000


def expand(case):
    t = cat()[case["t"]]
    la = {"kind": "from_map", "cuts": case["cuts"]}
    if case["known"] and 0 not in case["cuts"]:
        la = {"kind": ["from_map", "divisions", "from_delayed"][len(case["cuts"]) % 3], "cuts": case["cuts"], "known": True}
    lb = {"kind": "from_map", "cuts": case["cuts_b"]}
    if case["known"]:
        lb = dict(lb, known=True)
    tmpl = {"name": t["name"], "steps": t["steps"], "out": t["out"]}
    index_a = {"kind": "range", "name": None}
    if t.get("index"):
        # a repeating index: the cuts may split a run of equal labels, so the divisions stay unknown
        index_a = t["index"]
        la = {"kind": "from_map", "cuts": case["cuts"]}
    prog = templates._expand(tmpl, la, index_a, lb, ["tasks", "disk"][(len(case["cuts"]) + case["t"]) % 2])
    # A2: same rows as A, other layout (for mis-aligned operations)
    if any("A2" in s["in"] for s in prog["steps"]):
        for s in prog["steps"]:
            s["in"] = ["t3" if i == "A2" else i for i in s["in"]]
        cb = case["cuts_b"]
        k = sum(cb)
        cuts2 = cb + [8 - k] if k < 8 else cb
        t3 = templates.table("t3", templates.ROWS_A, layout={"kind": "from_map", "cuts": cuts2, "known": True} if case["known"] else {"kind": "from_pandas", "npartitions": len(cuts2), "sort": True})
        prog["tables"].append(t3)
    return prog, t


def is_refusal(e):
    msg = str(e)
    return any(r in msg for r in REFUSALS)


def check(case):
    if "steps" in case:
        prog, t = case, {"name": "random", "fam": "random"}
    else:
        prog, t = expand(case)
    out_id = prog["out"][0]
    failures = []
    classes = ["fam:" + t["fam"]] + (["known_shape_rerouted"] if prog.get("rerouted") else [])
    counters = {}
    with plans.config(prog.get("config")), warnings.catch_warnings():
        warnings.simplefilter("ignore")
        try:
            pvals = interp.run_pandas(prog)
            flags = interp.static_flags(prog, pvals)
        except Exception:
            return {"nontrivial": False, "classes": ["ill_typed"], "counters": {"discarded_ill_typed": 1}}
        fl = flags[out_id]
        if not fl.pandas_ok or not fl.defined:
            return {"nontrivial": False, "classes": ["no_pandas_reference"]}
        expect = pvals[out_id]
        try:
            coll = interp.run_dask(prog)[out_id]
            got = coll.compute() if hasattr(coll, "compute") else coll
        except Exception as e:
            if is_refusal(e):
                return {"nontrivial": False, "classes": classes + ["refused"], "counters": {"refused": 1}}
            return {"nontrivial": False, "classes": classes + ["errored:" + type(e).__name__], "counters": {"errored": 1}, "sample": None}
        d = equiv(got, expect, order=fl.ordered, index=fl.indexed, dtypes="kindpromo")
        if d is not None:
            failures.append(Failure("differs-from-pandas", f"{t['name']}: {d}", extra={"bucket_hint": t["fam"] + ":" + prog["steps"][-1]["op"] + ":" + str(prog["steps"][-1]["args"].get("how", prog["steps"][-1]["args"].get("f", "")))}).record())
    nparts = [len([c for c in (tt.get("layout") or {}).get("cuts", [1]) if c > 0]) for tt in prog["tables"]]
    nt = max(nparts) >= 2 and t["fam"] != "local"
    key = f"{t['name']}|{[tt.get('layout') for tt in prog['tables']]}" if "t" in case else None
    return {"nontrivial": ([key] if key else True) if nt else False, "classes": classes, "failures": failures, "counters": counters,
            "sample": interp.describe(prog) if nt else None, "evaluations": 1}


def shrink_candidates(case):
    from ..shrink import program_candidates

    if "steps" not in case:
        prog, t = expand(case)
        case = prog
    for c in program_candidates(case):
        yield c


def coverage_extra(tier, agg):
    return {"exhaustive_cuts_of_table_A": tier == "thorough", "templates": len(cat()), "refused": agg["counters"].get("refused", 0), "errored": agg["counters"].get("errored", 0),
            "discarded_ill_typed": agg["counters"].get("discarded_ill_typed", 0)}
