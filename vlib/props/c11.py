"""C11 — selecting partitions or leading/trailing rows commutes with the
computation (DESIGN §3 C11)."""
import itertools
import os
import shutil
import warnings

import numpy as np
import pandas as pd

from .. import plans, udfs
from ..compare import equiv
from ..runner import Failure

LEVEL = "exploration"
RULE = (
    "sources {from_pandas, from_pandas(dup sorted index), from_array, from_map (projectable / not), from_delayed, persist (FromGraph), legacy round trip, read_csv (3 files), read_parquet fsspec + arrow "
    "(3 files), datasets.timeseries} x chains of partition-wise operators {identity, arithmetic, projection, filter, assign with broadcast reduction, series + reduction, map_partitions, rename/fillna/astype, "
    "isin (delayed operand), loc slice, merge with a single-partition frame, broadcast join, shuffle, repartition, two-step chains} x selections {partitions[i], slices, reordered and repeated lists, "
    "get_partition, to_delayed()[i], nested partitions[P][Q], head(n, npartitions=k) for n around the partition sizes and k in {1,2,-1}, tail(n)}. Oracle: the per-partition outputs p_0..p_m-1 of the "
    "UNOPTIMIZED lowering of x: partitions[P] must consist of exactly [p_i for i in P] (multiset per partition after a shuffle), reported npartitions/divisions truthful (C06 predicate), "
    "head = concat(p_0..p_k-1).head(n), tail = p_m-1.tail(n), also head/tail OF a partition selection x.partitions[P].head(n, npartitions=k) = concat(p_P[0..k-1]).head(n); a selection that raises where x computes is a violation. non-trivial = P is not all partitions in order and the optimized plan has no "
    "Partitions node left (the selection was pushed into the plan); distinct by (source, chain, selection)"
)
ASSUMPTIONS = ["head()'s documented 'Insufficient elements' warning is allowed; the returned rows must still be the first rows of the selected partitions", "timeseries uses a fixed seed"]
BUDGET_S = {"quick": 175, "thorough": 900}

N = 14


def base_pdf(dup_index=False):
    rid = np.arange(N)
    pdf = pd.DataFrame({"x": (rid * 3 % 7 - 3).astype("float64"), "y": (rid * 5 % 11).astype("int64"), "k": (rid % 4).astype("int64"), "rid": rid})
    pdf.loc[pdf.index[3], "x"] = np.nan
    if dup_index:
        pdf.index = pd.Index(np.sort(rid // 2), name="ix")
    return pdf


_WORK = {}


def setup_worker(ctx):
    d = os.path.join(os.environ.get("VERIF_WORK", "/verif/.work/c11"), "data")
    if os.path.exists(d):
        shutil.rmtree(d)
    os.makedirs(d)
    import dask_expr as dx

    pdf = base_pdf()
    os.makedirs(os.path.join(d, "csv"))
    for i, (a, b) in enumerate([(0, 5), (5, 9), (9, N)]):
        pdf.iloc[a:b].to_csv(os.path.join(d, "csv", f"part{i}.csv"), index=False)
    dx.from_pandas(pdf, npartitions=3, sort=False).to_parquet(os.path.join(d, "pq"))
    _WORK["dir"] = d


def teardown_worker(ctx):
    d = _WORK.get("dir")
    if d:
        shutil.rmtree(d, ignore_errors=True)


def source(name):
    import dask
    import dask_expr as dx

    pdf = base_pdf()
    d = _WORK.get("dir")
    if name == "from_pandas":
        return dx.from_pandas(pdf, npartitions=4, sort=False)
    if name == "from_pandas_dup":
        return dx.from_pandas(base_pdf(True), npartitions=4)
    if name == "from_array":
        return dx.from_array(pdf[["x", "y", "k", "rid"]].to_numpy(dtype="float64"), chunksize=4, columns=["x", "y", "k", "rid"])
    if name == "from_map":
        return dx.from_map(udfs.iloc_slice, [(0, 4), (4, 4), (4, 9), (9, N)], pdf=pdf, meta=pdf.iloc[:0])
    if name == "from_map_noproj":
        return dx.from_map(udfs.iloc_slice_noproj, [(0, 4), (4, 9), (9, N)], pdf=pdf, meta=pdf.iloc[:0])
    if name == "from_delayed":
        return dx.from_delayed([dask.delayed(udfs.iloc_slice_noproj)(b, pdf=pdf) for b in [(0, 3), (3, 8), (8, N)]], meta=pdf.iloc[:0])
    if name == "persist":
        return (dx.from_pandas(pdf, npartitions=4, sort=False) + 0).persist(scheduler="sync")
    if name == "legacy":
        return dx.from_legacy_dataframe(dx.from_pandas(pdf, npartitions=3, sort=False).to_legacy_dataframe())
    if name == "read_csv":
        return dx.read_csv(os.path.join(d, "csv", "part*.csv"))
    if name == "read_parquet":
        return dx.read_parquet(os.path.join(d, "pq"))
    if name == "read_parquet_arrow":
        return dx.read_parquet(os.path.join(d, "pq"), filesystem="arrow")
    if name == "timeseries":
        from dask_expr.datasets import timeseries

        return timeseries(start="2000-01-01", end="2000-01-05", freq="6h", partition_freq="1d", dtypes={"x": float, "y": int, "k": int}, seed=7).assign(rid=1)
    raise ValueError(name)


SOURCES = ["from_pandas", "from_pandas_dup", "from_array", "from_map", "from_map_noproj", "from_delayed", "persist", "legacy", "read_csv", "read_parquet", "read_parquet_arrow", "timeseries"]


def _small():
    import dask_expr as dx

    return dx.from_pandas(pd.DataFrame({"k": [0, 1, 2, 5], "w": [10.0, 20.0, 30.0, 40.0]}), npartitions=1)


def _small2():
    import dask_expr as dx

    return dx.from_pandas(pd.DataFrame({"k": [0, 1, 1, 3, 2, 5], "w": [10.0, 20.0, 21.0, 30.0, 40.0, 50.0]}), npartitions=2, sort=False)


CHAINS = {
    "identity": (lambda d: d, True),
    "arith": (lambda d: d[["x", "y"]] * 2 + 1, True),
    "proj": (lambda d: d[["y", "x"]], True),
    "series": (lambda d: d.x, True),
    "filter": (lambda d: d[d.y > 3], True),
    "assign_bcast": (lambda d: d.assign(z=d.x - d.x.max()), True),
    "series_bcast": (lambda d: d.y + d.y.sum(), True),
    "map_partitions": (lambda d: d.map_partitions(udfs.add_one_numeric), True),
    "rename_fillna": (lambda d: d.rename(columns={"x": "x2"}).fillna({"x2": 0.0}), True),
    "astype": (lambda d: d.astype({"y": "float64"})[["y", "k"]], True),
    "isin": (lambda d: d[d.k.isin([1, 3])], True),
    "loc": (lambda d: d.loc[d.divisions[1]:], True),
    "merge_single": (lambda d: d.merge(_small(), on="k", how="left"), True),
    "merge_bcast": (lambda d: d.merge(_small2(), on="k", how="inner", broadcast=True), False),
    "merge_bcast_tasks": (lambda d: d.merge(_small2(), on="k", how="inner", broadcast=True, shuffle_method="tasks"), True),
    "merge_bcast_left": (lambda d: d.merge(_small2(), on="k", how="left", broadcast=True, shuffle_method="tasks"), False),
    "shuffle_tasks": (lambda d: d.shuffle("k", shuffle_method="tasks"), False),
    "shuffle_disk": (lambda d: d.shuffle("k", npartitions=3, shuffle_method="disk"), False),
    "repartition": (lambda d: d.repartition(npartitions=2), True),
    "two_step": (lambda d: (d[d.y > 1][["x", "y"]] + 1).assign(t=1), True),
    "index": (lambda d: d.index, True),
    "sort_values": (lambda d: d.sort_values("rid", ascending=False), "sorted"),
    "set_index": (lambda d: d.set_index("rid"), "sorted"),
}


# chains whose output index is created per partition by the join (labels not defined by the query)
UNINDEXED = {"merge_bcast", "merge_bcast_tasks", "merge_bcast_left"}


def selections(m):
    sel = []
    for i in sorted({0, m - 1, m // 2}):
        sel.append(("item", i))
        sel.append(("get_partition", i))
        sel.append(("to_delayed", i))
    if m >= 2:
        sel += [("slice", [1, m]), ("slice", [0, m - 1]), ("list", list(range(m))[::-1]), ("list", [m - 1, 0]), ("list", [0, 0]), ("list", [m - 1, m - 1, 0])]
        sel.append(("nested", [[m - 1, 0, 0], [2, 0]]))
    if m >= 3:
        sel += [("slice", [1, m - 1]), ("list", [2, 0, 1]), ("nested", [list(range(1, m)), [0]])]
    for n in (1, 3, 10):
        for k in (1, 2, -1):
            if k <= m:
                sel.append(("head", [n, k]))
        sel.append(("tail", [n]))
    # leading / trailing rows OF a partition selection (the selection is pushed into the source first)
    if m >= 2:
        sel += [("sel_head", [[m - 1, 0], 3, 1]), ("sel_head", [[m - 1, 0], 10, -1]), ("sel_head", [[1], 2, 1]), ("sel_tail", [[m - 1, 0], 3])]
    if m >= 3:
        sel += [("sel_head", [[1, 2, 0], 3, 1]), ("sel_head", [[2, 0], 10, 2]), ("sel_head", [[0, 2], 10, -1]), ("sel_tail", [[2, 1], 2])]
    return sel


def systematic(tier):
    cases = []
    for si, s in enumerate(SOURCES):
        for ci, c in enumerate(CHAINS):
            cases.append({"source": s, "chain": c})
    return cases


def _part_equal(a, b, ordered, indexed=True):
    d = equiv(a, b, order=True, index=indexed, dtypes="exact")
    if d is not None and not ordered:
        d = equiv(a, b, order=False, index=indexed, dtypes="exact")
    return d


def check(case):
    """one case = (source, chain); all selections are checked inside"""
    failures = []
    classes = []
    nts = []
    sname, cname = case["source"], case["chain"]
    fn, ordered = CHAINS[cname]
    sortedmode = ordered == "sorted"
    with warnings.catch_warnings():
        warnings.simplefilter("ignore")
        try:
            src = source(sname)
            if cname == "loc" and src.divisions[0] is None:
                return {"nontrivial": False, "classes": ["not_applicable"]}
            x = fn(src)
            full, parts, _, _, low = plans.execute(x.expr)
        except Exception as e:
            return {"nontrivial": False, "classes": ["x_fails:" + type(e).__name__], "counters": {"x_fails": 1}}
        m = len(parts)
        try:
            repart = x.optimize().npartitions != m
        except Exception:
            repart = False
        if repart:
            classes.append("optimize_changes_partition_count")
        if m != x.npartitions:
            failures.append(Failure("npartitions-mismatch", f"{sname}/{cname}: x reports {x.npartitions} partitions, {m} computed", extra={"bucket_hint": "npartitions"}).record())
        evals = 0
        only = case.get("only")
        for kind, arg in selections(m):
            if only and only != [kind, arg]:
                continue
            label = f"{sname}/{cname}/{kind}{arg}"
            evals += 1
            try:
                if kind in ("item", "slice", "list", "nested", "get_partition"):
                    if kind == "item":
                        q, P = x.partitions[arg], [arg]
                    elif kind == "get_partition":
                        q, P = x.get_partition(arg), [arg]
                    elif kind == "slice":
                        q, P = x.partitions[arg[0]:arg[1]], list(range(arg[0], arg[1]))
                    elif kind == "list":
                        q, P = x.partitions[arg], arg
                    else:
                        q, P = x.partitions[arg[0]].partitions[arg[1]], [arg[0][j] for j in arg[1]]
                    opt = q.optimize()
                    res, sparts, _, _, slow = plans.execute(opt.expr)
                    if len(sparts) != len(P) or q.npartitions != len(P) or opt.npartitions != len(P):
                        failures.append(Failure("selection-npartitions", f"{label}: {len(P)} partitions selected, reported {q.npartitions}/{opt.npartitions}, computed {len(sparts)}", extra={"bucket_hint": "sel-npartitions", "only": [kind, arg]}).record())
                        continue
                    for j, (i, sp) in enumerate(zip(P, sparts)):
                        d = _part_equal(sp, parts[i], ordered is True or sortedmode, cname not in UNINDEXED)
                        if d is not None:
                            failures.append(Failure("selection-differs", f"{label}: selected partition #{j} (= partition {i} of x) differs: {d}", extra={"bucket_hint": f"sel-{kind}", "only": [kind, arg]}).record())
                            break
                    # divisions of the selection must be truthful (C06 predicate)
                    from .. import structure

                    for kd, dt in structure.check_divisions(tuple(opt.divisions), sparts, label)[:1]:
                        failures.append(Failure("selection-divisions", dt, extra={"bucket_hint": "sel-" + kd, "only": [kind, arg]}).record())
                    if P != list(range(m)) and not plans.has_class(opt.expr, "Partitions"):
                        nts.append(f"{sname}/{cname}/{kind}{arg}")
                elif kind == "to_delayed":
                    dl = x.to_delayed()
                    if len(dl) != m:
                        failures.append(Failure("to_delayed-length", f"{label}: to_delayed() has {len(dl)} entries, x has {m} partitions", extra={"bucket_hint": "to_delayed"}).record())
                        continue
                    got = dl[arg].compute(scheduler="sync")
                    d = _part_equal(got, parts[arg], ordered is True or sortedmode, cname not in UNINDEXED)
                    if d is not None:
                        failures.append(Failure("to_delayed-differs", f"{label}: {d}", extra={"bucket_hint": "to_delayed", "only": [kind, arg]}).record())
                elif kind in ("sel_head", "sel_tail"):
                    if ordered is False or not isinstance(parts[0], (pd.DataFrame, pd.Series)):
                        continue
                    P = arg[0]
                    sub = x.partitions[P]
                    if kind == "sel_head":
                        n, k = arg[1], arg[2]
                        got = sub.head(n, npartitions=k, compute=True)
                        kk = len(P) if k == -1 else k
                        exp = pd.concat([parts[i] for i in P[:kk]]).head(n)
                    else:
                        n = arg[1]
                        got = sub.tail(n, compute=True)
                        exp = parts[P[-1]].tail(n)
                    d = equiv(got, exp, order=True, index=cname not in UNINDEXED, dtypes="exact")
                    if d is not None:
                        failures.append(Failure("selection-head-differs" if kind == "sel_head" else "selection-tail-differs", f"{label}: {d}", extra={"bucket_hint": kind, "only": [kind, arg]}).record())
                    nts.append(f"{sname}/{cname}/{kind}{arg}")
                elif kind in ("head", "tail"):
                    if ordered is False:
                        continue  # row order inside shuffled partitions is unspecified
                    if kind == "head":
                        n, k = arg
                        got = x.head(n, npartitions=k, compute=True)
                        kk = m if k == -1 else k
                        exp = pd.concat(parts[:kk]).head(n) if isinstance(parts[0], (pd.DataFrame, pd.Series)) else parts[0].append(list(parts[1:kk]))[:n]
                        alt = full.head(n) if sortedmode and hasattr(full, "head") else None
                    else:
                        n = arg[0]
                        got = x.tail(n, compute=True)
                        exp = parts[-1].tail(n) if hasattr(parts[-1], "tail") else parts[-1][-n:]
                        alt = full.tail(n) if sortedmode and hasattr(full, "tail") else None
                    d = equiv(got, exp, order=True, index=True, dtypes="exact")
                    if d is not None and alt is not None and equiv(got, alt, order=True, index=True, dtypes="exact") is None:
                        d = None
                    if d is not None:
                        failures.append(Failure(f"{kind}-differs", f"{label}: {d}", extra={"bucket_hint": kind, "only": [kind, arg]}).record())
                    else:
                        nts.append(f"{sname}/{cname}/{kind}{arg}")
            except Exception as e:
                failures.append(Failure("selection-raises", f"{label}: {type(e).__name__}: {e} (x itself computes)", exc=e, extra={"only": [kind, arg]}).record())
        classes += ["source:" + sname, "chain:" + cname]
        for f in failures:
            f["optimize_changes_partition_count"] = repart
            f["source"] = sname
    return {"nontrivial": nts or False, "classes": classes, "failures": failures, "sample": case, "evaluations": max(evals, 1)}


def shrink_candidates(case):
    return []
