"""C17 — materialization boundaries are transparent (DESIGN §3 C17)."""
import copy

from .. import gen, interp, plans, structure, templates
from .. import ops as O
from ..compare import equiv
from ..runner import Failure

LEVEL = "exploration"
RULE = (
    "Hypothesis-generated programs (+ templates) cut at EVERY intermediate value with every applicable cut kind {persist, to_delayed->from_delayed(meta, divisions), "
    "to_delayed->from_delayed(meta), to_legacy_dataframe->from_legacy_dataframe (optimized and not)}; the remaining operations continue on the re-imported collection; "
    "plus two-source programs whose sources are all cut at once before an index-aligning operation (same partition count, different boundaries); final result (equiv), declared schema and divisions (when the cut kind carries them) must equal the uncut query's. A cut is only placed where all operands that later have to be "
    "co-aligned stay on one side of it. non-trivial = the tail contains an operator the optimizer pushes towards the source (projection, filter, partitions, head, reduction); "
    "distinct by (program hash, cut position, cut kind)"
)
ASSUMPTIONS = ["persist() runs on the synchronous scheduler", "divisions are compared for persist, legacy and delayed-with-divisions cuts only"]
BUDGET_S = {"quick": 170, "thorough": 900}

PROFILE_Q = gen.Profile("cuts", max_steps=6, max_rows=10, weights={"partitions": 1.5, "head": 2, "cols": 4, "col": 3, "filter_pred": 4, "reduce": 2.5, "index_of": 1, "binop_misaligned": 1.5})
PROFILE_T = gen.Profile("cuts", max_steps=10, max_rows=16, n_tables=(1, 3), weights={"partitions": 1.5, "head": 2, "cols": 4, "col": 3, "filter_pred": 4, "reduce": 2.5, "index_of": 1})
KINDS = ["persist", "delayed", "legacy", "delayed_nodiv", "legacy_noopt"]
PUSHED = {"cols", "col", "filter", "filter_pred", "partitions", "head", "reduce", "drop", "dropna", "loc_slice", "index_of"}


def misaligned_cases(tier):
    """two frames over the same labels, cut differently into the SAME number of partitions, combined by an operation that has to
    align them on the index; every table is cut at once (``multi_cut``)"""
    S = templates.S
    cases = []
    pairs = [([3, 5], [5, 3]), ([2, 3, 3], [4, 1, 3]), ([1, 7], [6, 2]), ([4, 4], [4, 4])]
    if tier == "thorough":
        pairs += [([1, 1, 6], [5, 2, 1]), ([2, 2, 2, 2], [1, 3, 1, 3]), ([8], [8])]
    for ca, cb in pairs:
        for known in (False, True):
            ta = templates.table("t0", templates.ROWS_A, layout={"kind": "from_map", "cuts": ca, **({"known": True} if known else {})})
            tb = templates.table("t1", templates.ROWS_A, layout={"kind": "from_map", "cuts": cb, **({"known": True} if known else {})})
            for op in ("add", "gt"):
                steps = [S("v1", "col", ["t0"], col="f"), S("v2", "col", ["t1"], col="i"), S("v3", "binop_misaligned", ["v1", "v2"], op=op)]
                cases.append({"tables": [ta, tb], "steps": steps, "out": ["v3"], "config": {"shuffle": "tasks"}, "multi_cut": True, "template": "misaligned-" + op})
            steps = [S("v0", "filter_pred", ["t1"], pred=templates.P("gt", "i", 2)), S("v1", "col", ["t0"], col="i"), S("v2", "col", ["v0"], col="g"), S("v3", "binop_misaligned", ["v1", "v2"], op="add")]
            cases.append({"tables": [ta, tb], "steps": steps, "out": ["v3"], "config": {"shuffle": "tasks"}, "multi_cut": True, "template": "misaligned-filtered"})
    return cases


def systematic(tier):
    cs = templates.c01_cases(tier)
    return (cs if tier == "thorough" else cs[::2]) + misaligned_cases(tier)


def strategy(tier):
    from hypothesis import strategies as st

    prof = PROFILE_Q if tier == "quick" else PROFILE_T
    return st.builds(lambda p, sh: dict(p, config={"shuffle": sh}), gen.programs(prof), st.sampled_from(["tasks", "tasks", "disk"]))


def n_random(tier):
    return 500 if tier == "quick" else 3000


def cut_points(prog, pvals, flags):
    """value ids where a cut keeps every later aligned operation on one side"""
    ids = [t["name"] for t in prog["tables"]] + [s["id"] for s in prog["steps"]]
    desc = {i: {i} for i in ids}  # descendants-of sets, built forward
    parents = {s["id"]: s["in"] for s in prog["steps"]}
    anc = {i: set() for i in ids}
    for s in prog["steps"]:
        for i in s["in"]:
            anc[s["id"]] |= {i} | anc[i]
    out = []
    live = interp.live_steps(prog)
    for vid in ids:
        if vid not in live or vid == prog["out"][0]:
            continue
        if O.kind_of(pvals[vid]) not in ("frame", "series", "index", "scalar"):
            continue
        ok = True
        for s in prog["steps"]:
            op = O.OPS[s["op"]]
            if len(s["in"]) > 1 and "aligned" in op.tags:
                sides = [(i == vid or vid in anc[i]) for i in s["in"]]
                if any(sides) and not all(sides):
                    ok = False
                    break
        if ok:
            out.append(vid)
    return out


def with_cuts(prog, vids, how):
    p = prog
    for v in vids:
        p = with_cut(p, v, how)
    return p


def with_cut(prog, vid, how):
    p = copy.deepcopy(prog)
    cid = f"cut_{vid}"
    new_steps = []
    inserted = vid in {t["name"] for t in p["tables"]}
    if inserted:
        new_steps.append({"id": cid, "op": "cut", "in": [vid], "args": {"how": how}})
    for s in p["steps"]:
        if s["id"] != vid:
            s["in"] = [cid if i == vid else i for i in s["in"]]
        new_steps.append(s)
        if s["id"] == vid:
            new_steps.append({"id": cid, "op": "cut", "in": [vid], "args": {"how": how}})
    p["steps"] = new_steps
    return p


def check(case):
    prog = case
    from ..interp import case_hash

    out_id = prog["out"][0]
    failures = []
    classes = []
    nts = []
    h = case_hash(prog)
    with plans.config(prog.get("config")):
        pvals = interp.run_pandas(prog)
        flags = interp.static_flags(prog, pvals)
        fl = flags[out_id]
        if not fl.defined:
            return {"nontrivial": False, "classes": ["ambiguous_query"]}
        try:
            coll = interp.run_dask(prog)[out_id]
            ref = plans.execute(coll.optimize().expr)[0] if hasattr(coll, "expr") else coll
            ref_meta = structure.meta_signature(coll._meta) if hasattr(coll, "_meta") else None
            ref_div = repr(tuple(coll.divisions)) if hasattr(coll, "divisions") else None
        except Exception as e:
            return {"nontrivial": False, "classes": ["uncut_fails:" + type(e).__name__], "counters": {"uncut_fails": 1}}
        points = cut_points(prog, pvals, flags)
        only = prog.get("only_cut")
        pos = {s["id"]: k for k, s in enumerate(prog["steps"])}
        targets = [[v] for v in points]
        if prog.get("multi_cut") and len(prog["tables"]) > 1:
            # every source is cut at once: two re-imported collections meet in one operation
            targets.append([t["name"] for t in prog["tables"]])
        for vids in targets:
            vid = vids[0] if len(vids) == 1 else "+".join(vids)
            kind = O.kind_of(pvals[vids[0]])
            kinds = KINDS if kind in ("frame", "series") else ["persist"]
            tail_ops = {s["op"] for s in prog["steps"] if s["id"] not in pos or pos[s["id"]] > pos.get(vids[0], -1)}
            for how in kinds:
                if only and only != [vid, how]:
                    continue
                p2 = with_cuts(prog, vids, how)
                evals_label = f"cut at {vid} ({kind}) with {how}"
                try:
                    c2 = interp.run_dask(p2)[out_id]
                    got = plans.execute(c2.optimize().expr)[0] if hasattr(c2, "expr") else c2
                except Exception as e:
                    from .c02 import is_refusal

                    if is_refusal(e):
                        # a documented refusal (e.g. ffill over an all-NaN partition): the uncut query only avoids it because the
                        # optimizer prunes the offending column; materializing the intermediate value has to compute it
                        classes.append("cut_refused")
                        continue
                    failures.append(Failure("cut-raises", f"{evals_label}: {type(e).__name__}: {e} (the uncut query computes)", exc=e, extra={"cut": [vid, how]}).record())
                    continue
                classes.append(f"cut:{how}:{kind}")
                if tail_ops & PUSHED:
                    nts.append(f"{h}:{vid}:{how}")
                # an index-aligning operation after a cut that drops the divisions aligns by shuffling: row order unspecified
                shuffled_align = how == "delayed_nodiv" and any("misaligned" in O.OPS[op].tags for op in tail_ops)
                d = equiv(got, ref, order=fl.ordered and not shuffled_align, index=fl.indexed, dtypes="promo")
                if d is not None:
                    failures.append(Failure("cut-changes-result", f"{evals_label}: {d}", extra={"bucket_hint": f"result-{how}", "cut": [vid, how]}).record())
                    continue
                if hasattr(c2, "_meta") and structure.meta_signature(c2._meta) != ref_meta:
                    failures.append(Failure("cut-changes-schema", f"{evals_label}: declared schema {structure.meta_signature(c2._meta)!r} != uncut {ref_meta!r}", extra={"bucket_hint": f"schema-{how}", "cut": [vid, how]}).record())
                if how in ("persist", "delayed", "legacy", "legacy_noopt") and hasattr(c2, "divisions") and fl.layout and all(flags[v].layout for v in vids):
                    dv = repr(tuple(c2.divisions))
                    if dv != ref_div:
                        failures.append(Failure("cut-changes-divisions", f"{evals_label}: divisions {dv} != uncut {ref_div}", extra={"bucket_hint": f"divisions-{how}", "cut": [vid, how], "cut_divisions_unknown": all(x is None for x in c2.divisions)}).record())
    classes += ["op:" + s["op"] for s in prog["steps"]]
    return {"nontrivial": sorted(set(nts)) or False, "classes": classes, "failures": failures, "sample": interp.describe(prog), "evaluations": max(1, len(nts))}


def shrink_candidates(case):
    from ..shrink import program_candidates

    for c in program_candidates(case):
        yield c
