"""C07 — declared schema matches the computed data (DESIGN §3 C07)."""
from .. import gen, interp, plans, structure, templates
from ..runner import Failure
from . import c06

LEVEL = "exploration"
RULE = (
    "same program stream as C06 plus dtype mixes (int/bool columns acquiring NaN through outer joins, shift, where; categoricals; strings) and layouts with empty / all-null "
    "partitions; for EVERY SSA value and stages {logical, simplified-logical, physical, fused}: container type of _meta vs computed object, column labels and order, "
    "series/index names, dtype kinds (pandas' int/bool promotion allowed when nulls appeared; skipped for 0-row results), EACH PARTITION carries the same labels and names, "
    "and the declared schema is identical at every stage. non-trivial = non-source value with >= 2 partitions or an empty partition; distinct by (program hash, value id)"
)
ASSUMPTIONS = ["user-passed meta is never generated (every declared schema is dask-expr's own)", "approximate / dtype-changing pandas-version quirks are judged by dtype *kind* only"]
BUDGET_S = {"quick": 170, "thorough": 900}

W = dict(c06.W, **{"merge": 3, "where": 2, "shift": 2, "astype": 1.5, "groupby_agg": 2.5, "reduce": 2, "value_counts": 1.5, "unique": 1, "to_frame": 1.5, "rename": 1.5, "accessor": 1.5, "assign": 2})
PROFILE_Q = gen.Profile("schema", weights=W, max_steps=5, max_rows=10)
PROFILE_T = gen.Profile("schema", weights=W, max_steps=9, max_rows=16, n_tables=(1, 3))


def systematic(tier):
    m = templates.matrix_cases(tier)
    return templates.c01_cases(tier) + (m if tier == "thorough" else m[::2])


def strategy(tier):
    from hypothesis import strategies as st

    prof = PROFILE_Q if tier == "quick" else PROFILE_T
    return st.builds(lambda p, sh: dict(p, config={"shuffle": sh}), gen.programs(prof), st.sampled_from(["tasks", "tasks", "disk"]))


def n_random(tier):
    return 1000 if tier == "quick" else 8000


def check(case):
    prog = case
    failures = []
    classes = []
    nts = []
    from ..interp import case_hash

    h = case_hash(prog)
    tables = {t["name"] for t in prog["tables"]}
    with plans.config(prog.get("config")):
        seen_fail = set()
        logical_sig = {}
        for vid, stage, se, low, res, parts, coll in structure.observe(prog):
            if se is None:
                classes.append("stage_unavailable")
                continue
            where = f"value {vid} stage {stage}"
            probs = []
            try:
                meta = se._meta
            except Exception as ex:
                probs.append(("meta-raises", f"{where}: {type(ex).__name__}: {ex}"))
                meta = None
            if meta is not None:
                probs += structure.check_schema(meta, res, parts, where)
                sig = structure.meta_signature(meta)
                if stage == "logical":
                    logical_sig[vid] = sig
                    # the collection class chosen must match the meta container
                    ck = type(coll).__name__
                    mk = structure.container_kind(meta)
                    if {"frame": "DataFrame", "series": "Series", "index": "Index", "scalar": "Scalar"}.get(mk) != ck:
                        probs.append(("collection-class", f"{where}: meta is a {mk} but the collection is a {ck}"))
                elif vid in logical_sig and sig != logical_sig[vid]:
                    probs.append(("schema-changed-by-optimization", f"{where}: declared schema {sig!r} differs from the logical plan's {logical_sig[vid]!r}"))
                try:
                    lm = low._meta
                    if structure.meta_signature(lm) != sig:
                        probs.append(("schema-changed-by-lowering", f"{where}: lowered plan declares {structure.meta_signature(lm)!r}, stage plan {sig!r}"))
                except Exception:
                    pass
            if vid not in tables and (len(parts) >= 2 or any(hasattr(p, "__len__") and len(p) == 0 for p in parts)):
                nts.append(f"{h}:{vid}")
            for kind_, detail in probs:
                if kind_ in seen_fail:
                    continue
                seen_fail.add(kind_)
                failures.append(Failure(kind_, detail, stage=stage, extra={"bucket_hint": kind_, "value": vid}).record())
    classes += ["op:" + s["op"] for s in prog["steps"]]
    return {"nontrivial": sorted(set(nts)) or False, "classes": classes, "failures": failures, "sample": interp.describe(prog), "evaluations": 1}


def shrink_candidates(case):
    from ..shrink import program_candidates

    return program_candidates(case)
