"""C16 — collections survive serialization to another process (DESIGN §3 C16)."""
import pickle

from .. import gen, interp, plans, structure, subproc, templates
from ..compare import equiv
from ..runner import Failure

LEVEL = "exploration"
RULE = (
    "batches of 6 Hypothesis-generated programs (+ template batches) x form in {as built, optimize(), optimize(fuse=False), lowered}; the origin records _name, schema, "
    "divisions, npartitions and the computed result and pickle.dumps() the collection; a FRESH interpreter with empty caches loads it and reports the same five observations "
    "(one receiver per (batch, form): different forms of one program never share a receiver; receivers run with a different PYTHONHASHSEED than the origin); all must agree. Includes 80-400 row tables so that sampled-quantile division code paths are reached. non-trivial = the pickled plan contains an expression whose "
    "divisions/meta are not derivable from its operands alone (set_index / sort_values / repartition / quantile-based) or a partition-filtered or fused node; distinct by (program hash, form)"
)
ASSUMPTIONS = ["UDFs are importable from vlib.udfs in the receiving interpreter (pickled by reference)", "delayed-backed sources are picklable graphs of pure functions"]
BUDGET_S = {"quick": 240, "thorough": 900}
NO_FRESH_CONFIRM = True  # every case already runs in fresh interpreters
MINIMISE_EVALS = {"quick": 60, "thorough": 200}

W = {"set_index": 4, "sort_values": 3, "repartition": 2.5, "shuffle": 2, "merge": 2.5, "merge_index": 2, "groupby_agg": 2, "partitions": 2, "head": 1.5, "loc_slice": 1.5, "map_partitions": 2,
     "cut": 1.5, "filter_pred": 2, "assign": 2, "cols": 2, "concat0": 1}
PROFILE_Q = gen.Profile("pickle", weights=W, max_steps=5, max_rows=10)
PROFILE_T = gen.Profile("pickle", weights=W, max_steps=9, max_rows=16, n_tables=(1, 3))
FORMS = ["logical", "optimized", "unfused", "lowered"]
BATCH = 6


def big_table(name, n, nparts, seed=0):
    cols = [["k", "int"], ["f", "float"], ["s", "str"], ["u", "int"], ["rid", "int"]]
    rows = [[(i * 7 + seed) % 9, None if i % 7 == 0 else ((i * 5 + seed) % 13 - 6) / 2.0, None if i % 9 == 0 else "abcde"[(i * 3) % 5], (i * 37 + seed * 11) % 101, i] for i in range(n)]
    return {"name": name, "columns": cols, "rows": rows, "index": {"kind": "range", "name": None}, "layout": {"kind": "from_pandas", "npartitions": nparts, "sort": True}}


def big_cases(tier):
    """plans whose divisions come from *sampled* quantiles need >~15 rows per partition"""
    S = templates.S
    out = []
    for n, nparts in ((80, 4), (200, 5)) if tier == "quick" else ((80, 4), (200, 5), (400, 8), (90, 2)):
        t = big_table("t0", n, nparts)
        progs = [
            [S("v1", "set_index", ["t0"], col="u", drop=True)],
            [S("v1", "set_index", ["t0"], col="f2", drop=False)] if False else [S("v1", "sort_values", ["t0"], by=["u"], ascending=True, na_position="last")],
            [S("v1", "set_index", ["t0"], col="u", drop=True), S("v2", "cols", ["v1"], cols=["f", "k"])],
            [S("v1", "sort_values", ["t0"], by=["f", "rid"], ascending=False, na_position="first"), S("v2", "filter_pred", ["v1"], pred={"col": "k", "cmp": "gt", "val": 2})],
            [S("v1", "set_index", ["t0"], col="rid", drop=True), S("v2", "repartition", ["v1"], npartitions=3)],
            [S("v1", "groupby_agg", ["t0"], by=["k"], col="f", how="mean", split_out=2, sort=None)],
        ]
        for sh in ("tasks", "disk"):
            for steps in progs:
                out.append({"tables": [t], "steps": steps, "out": [steps[-1]["id"]], "config": {"shuffle": sh}, "template": "big"})
    return out


def unsorted_source_cases(tier):
    """from_pandas(sort=True) on frames whose rows are not in index order (the expression holds the user's frame, the graph the sorted one)"""
    S = templates.S
    out = []
    perms = [[3, 0, 7, 1, 6, 2, 5, 4], [7, 6, 5, 4, 3, 2, 1, 0]] + ([[1, 0, 2, 3, 4, 5, 6, 7]] if tier == "thorough" else [])
    for perm in perms:
        for nparts in (1, 3):
            t = templates.table("t0", templates.ROWS_A, layout={"kind": "from_pandas", "npartitions": nparts, "sort": True, "row_perm": perm})
            for steps in ([S("v1", "filter_pred", ["t0"], pred=templates.P("gt", "i", 2))], [S("v1", "cols", ["t0"], cols=["f", "k"]), S("v2", "binop_scalar", ["v1"], op="add", c=1, r=False)],
                          [S("v1", "col", ["t0"], col="i"), S("v2", "reduce", ["v1"], how="sum", split_every=None)]):
                out.append({"tables": [t], "steps": steps, "out": [steps[-1]["id"]], "config": {"shuffle": "tasks"}, "template": "unsorted-source"})
    return out


def systematic(tier):
    cs = [c for c in templates.c01_cases(tier)]
    # every form of every program costs one fresh interpreter: the templates are sub-sampled in both tiers
    cs = cs[::14] if tier == "quick" else cs[::9]
    cs = big_cases(tier) + unsorted_source_cases(tier) + cs
    return [{"batch": cs[i : i + BATCH]} for i in range(0, len(cs), BATCH)]


def strategy(tier):
    from hypothesis import strategies as st

    prof = PROFILE_Q if tier == "quick" else PROFILE_T
    one = st.builds(lambda p, sh: dict(p, config={"shuffle": sh}), gen.programs(prof), st.sampled_from(["tasks", "tasks", "disk"]))
    return st.builds(lambda b: {"batch": b}, st.lists(one, min_size=BATCH, max_size=BATCH))


def n_random(tier):
    return 24 if tier == "quick" else 60


def form_of(coll, form):
    from dask_expr import new_collection

    if form == "logical":
        return coll
    if form == "optimized":
        return coll.optimize()
    if form == "unfused":
        return coll.optimize(fuse=False)
    if form == "lowered":
        return new_collection(coll.expr.lower_completely())
    raise ValueError(form)


SPECIAL = ("SetIndex", "SortValues", "_SetIndexPost", "SetPartition", "SetIndexBlockwise", "Fused", "FusedIO", "RepartitionSize", "RepartitionQuantiles", "RepartitionDivisions", "TaskShuffle", "DiskShuffle")


def check(case):
    from ..interp import case_hash
    from ..receiver import observe_collection

    failures = []
    classes = []
    nts = []
    progs = case["batch"]
    built = []
    for prog in progs:
        with plans.config(prog.get("config")):
            try:
                pv = interp.run_pandas(prog)
                fl = interp.static_flags(prog, pv)[prog["out"][0]]
                coll = interp.run_dask(prog)[prog["out"][0]]
                if not hasattr(coll, "expr") or not fl.defined:
                    built.append(None)
                    continue
                built.append((prog, fl, coll))
            except Exception:
                built.append(None)
    for form in case.get("forms", FORMS):
        items, metas = [], []
        for b in built:
            if b is None:
                continue
            prog, fl, coll = b
            cfg = {"dataframe.shuffle.method": (prog.get("config") or {}).get("shuffle")}
            with plans.config(prog.get("config")):
                try:
                    fc = form_of(coll, form)
                    origin = observe_collection(fc)
                except Exception:
                    classes.append("origin_fails")
                    continue
                try:
                    blob = pickle.dumps(fc)
                except Exception as e:
                    failures.append(Failure("pickle-raises", f"form {form}: pickle.dumps raised {type(e).__name__}: {e}", exc=e, extra={"form": form, "program": prog}).record())
                    continue
            if any(type(e).__name__ in SPECIAL or ("_partitions" in type(e)._parameters and e.operand("_partitions") is not None) for e in fc.expr.walk()):
                nts.append(f"{case_hash(prog)}:{form}")
            items.append({"pickle": blob, "config": cfg})
            metas.append((prog, fl, origin))
        if not items:
            continue
        try:
            # the receiver gets another string-hash salt than the origin (which runs with PYTHONHASHSEED=0)
            outs = subproc.run_receiver("unpickle", items, hashseed=str(1000 + FORMS.index(form)))
        except Exception as e:
            raise RuntimeError(f"receiver crashed: {e}")
        for (prog, fl, origin), out in zip(metas, outs):
            extra = {"form": form, "program": prog}
            if not out["ok"]:
                failures.append(Failure("unpickled-collection-fails", f"form {form}: in the fresh process: {out['error']}", extra=dict(extra, bucket_hint=f"{out['exc_type']}", remote_traceback=out["traceback"])).record())
                continue
            obs = out["obs"]
            for key in ("name", "meta", "npartitions", "divisions"):
                if obs[key] != origin[key]:
                    failures.append(Failure("unpickled-differs", f"form {form}: {key} in the fresh process {obs[key]!r} != origin {origin[key]!r}", extra=dict(extra, bucket_hint=key)).record())
            d = equiv(obs["result"], origin["result"], order=fl.ordered, index=fl.indexed, dtypes="exact")
            if d is not None:
                failures.append(Failure("unpickled-differs", f"form {form}: computed result in the fresh process differs: {d}", extra=dict(extra, bucket_hint="result")).record())
        classes.append("form:" + form)
    return {"nontrivial": sorted(set(nts)) or False, "classes": classes, "failures": failures, "sample": [interp.describe(p) for p in progs[:2]], "evaluations": len(progs) * len(FORMS)}


def shrink_candidates(case):
    from ..shrink import program_candidates

    b = case["batch"]
    forms = case.get("forms", FORMS)
    if len(b) > 1 or len(forms) > 1:
        for p in b:
            for f in forms:
                yield {"batch": [p], "forms": [f]}
        return
    for c in program_candidates(b[0]):
        yield {"batch": [c], "forms": forms}
