"""C01 — optimization never changes what a query computes (DESIGN §3 C01).

Oracle: differential.  Reference = execution of the unoptimized lowering
(expr.lower_completely()); every optimizer stage and collection.compute()
must give an equivalent result and must not raise where the reference
succeeds."""
from .. import gen, interp, plans, templates
from ..compare import equiv
from ..runner import Failure

LEVEL = "exploration"
RULE = (
    "cases = rule-trigger templates x layouts (systematic) + Hypothesis-generated typed programs "
    "(tables<=12 rows, <=6..10 steps, 1-2 tables, random layouts incl. empty partitions, shuffle tasks|disk); "
    "each case executes the unoptimized lowering and all 5 optimizer stages + compute(); "
    "non-trivial = the unoptimized reference succeeded AND simplify changed the plan (a rewrite rule fired); "
    "distinct by canonical-JSON hash of the program"
)
ASSUMPTIONS = [
    "p2p shuffle unreachable (distributed not installed); tasks and disk only",
    "row order / index labels compared only where the static flags say the query defines them",
    "float comparison rtol=1e-9 atol=1e-12",
]
BUDGET_S = {"quick": 170, "thorough": 900}

PROFILE_Q = gen.Profile("optimizer", max_steps=6, max_rows=10)
PROFILE_T = gen.Profile("optimizer", max_steps=10, max_rows=16, n_tables=(1, 3))


def systematic(tier):
    return templates.c01_cases(tier) + templates.matrix_cases(tier)


def strategy(tier):
    from hypothesis import strategies as st

    prof = PROFILE_Q if tier == "quick" else PROFILE_T
    return st.builds(lambda p, sh: dict(p, config={"shuffle": sh}), gen.programs(prof), st.sampled_from(["tasks", "tasks", "disk"]))


def n_random(tier):
    return 2600 if tier == "quick" else 20000


def check(case):
    return differential(case, "C01")


def differential(case, pid, stages=plans.STAGES, with_compute=True):
    prog = case
    out_id = prog["out"][0]
    failures = []
    classes = []
    with plans.config(prog.get("config")):
        pvals = interp.run_pandas(prog)
        flags = interp.static_flags(prog, pvals)
        fl = flags[out_id]
        try:
            dvals = interp.run_dask(prog)
            coll = dvals[out_id]
            expr = coll.expr
            ref, _, _, _, _ = plans.execute(expr)
        except Exception as e:
            return {"nontrivial": False, "classes": ["unoptimized_fails:" + type(e).__name__], "counters": {"unoptimized_fails": 1}}
        alt = alternative_result(prog, flags, dvals)
        fired = False
        for stage in stages:
            try:
                se = plans.optimize_until(expr, stage)
            except Exception as e:
                failures.append(Failure("stage-raises", f"optimize_until({stage}) raised {type(e).__name__}: {e}", stage=stage, exc=e).record())
                break
            if stage == "simplified-logical" and se._name != expr._name:
                fired = True
            try:
                res, _, _, _, low = plans.execute(se)
            except Exception as e:
                failures.append(Failure("stage-exec-raises", f"executing the {stage} plan raised {type(e).__name__}: {e}", stage=stage, exc=e).record())
                break
            d = equiv(res, ref, order=fl.ordered, index=fl.indexed, dtypes="promo")
            if d is not None and alt is not None and equiv(res, alt, order=fl.ordered, index=fl.indexed, dtypes="promo") is None:
                d = None
                classes.append("accepted_global_head_tail")
            if d is not None:
                failures.append(Failure("stage-mismatch", f"{stage} plan result differs from unoptimized: {d}", stage=stage, extra={"bucket_hint": stage}).record())
                break
            if stage == "fused":
                for n in plans.classes_in(low):
                    if n in ("Fused", "FusedIO", "FusedParquetIO"):
                        classes.append("plan:" + n)
        if with_compute and not failures:
            try:
                res = coll.compute()
            except Exception as e:
                failures.append(Failure("compute-raises", f"compute() raised {type(e).__name__}: {e}", stage="compute", exc=e).record())
            else:
                d = equiv(res, ref, order=fl.ordered, index=fl.indexed, dtypes="promo")
                if d is not None and alt is not None and equiv(res, alt, order=fl.ordered, index=fl.indexed, dtypes="promo") is None:
                    d = None
                if d is not None:
                    failures.append(Failure("compute-mismatch", f"compute() differs from unoptimized: {d}", stage="compute", extra={"bucket_hint": "compute"}).record())
    classes += ["op:" + s["op"] for s in prog["steps"]]
    classes.append("rule_fired" if fired else "no_rule_fired")
    classes.append("shuffle:" + str((prog.get("config") or {}).get("shuffle")))
    if len(prog["tables"]) > 1:
        classes.append("multi_table")
    ids = [i for s in prog["steps"] for i in s["in"]]
    if len(ids) != len(set(ids)):
        classes.append("shared_value")
    if any(0 in (t.get("layout") or {}).get("cuts", []) for t in prog["tables"]):
        classes.append("empty_partition")
    return {
        "nontrivial": fired,
        "classes": classes,
        "failures": failures,
        "sample": interp.describe(prog),
        "evaluations": 1,
    }


def alternative_result(prog, flags, dvals):
    """head(n, npartitions=k)/tail(n) of a frame whose partitioning is chosen by a
    sort/shuffle algorithm: the documented per-partition result and the exact
    global first/last n rows both satisfy the query (DESIGN C11).  Returns the
    global alternative, or None when the output is uniquely defined."""
    out_id = prog["out"][0]
    if flags[out_id].defined or not prog["steps"]:
        return None
    last = prog["steps"][-1]
    if last["id"] != out_id or last["op"] != "head":
        return None
    try:
        inp = plans.execute(dvals[last["in"][0]].expr)[0]
    except Exception:
        return None
    return getattr(inp, last["args"]["how"])(last["args"]["n"])


def shrink_candidates(case):
    from ..shrink import program_candidates

    return program_candidates(case)
