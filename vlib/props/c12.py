"""C12 — a shuffle is a permutation that co-locates equal keys consistently
across frames (DESIGN §3 C12).  Bounded-exhaustive grid over
(n_in, n_out, max_branch) x method x key kind x ignore_index, with subsets of
output partitions, plus the int-vs-float consistency check through the
shuffles a hash join plans."""
import math

import numpy as np
import pandas as pd

from .. import plans, sched
from ..compare import _col_equal
from ..runner import Failure

LEVEL = "exploration"
RULE = (
    "bounded-exhaustive grid (n_in, n_out) in [1..N]^2 x max_branch in {2,3,4,8,32} (N=10 quick, 20 thorough) x method {tasks,disk} "
    "x key kind {int,float+NaN,str+None,categorical,two columns,index,aligned series} x ignore_index; 3*n_in rows with a unique rid; "
    "invariants: permutation (rid multiset + row values), co-location (each distinct key incl. null in one partition), "
    "same key -> same partition number for a second frame with another layout, and (merge cases) for int vs float keys in the two shuffles a hash join plans, with the key a column, the named index (referenced by name) or left_index on either side; "
    "reported npartitions == n_out == computed partitions; requested subset == those partitions of the full shuffle; "
    "non-trivial = multi-stage route (ceil(log(n_in)/log(max_branch))>=2) or n_in != n_out; distinct by (n_in,n_out,max_branch,method,key)"
)
ASSUMPTIONS = ["p2p shuffle unreachable (distributed not installed)", "partition contents compared as multisets (order inside a shuffled partition is unspecified)"]
BUDGET_S = {"quick": 170, "thorough": 900}
NO_FRESH_CONFIRM = False

KEYS = ["int", "float", "str", "cat", "two", "index", "series"]


def table(n_in, salt=0):
    n = 3 * n_in
    rid = np.arange(n)
    ki = (rid * 7 + salt) % 11
    kf = np.where(rid % 5 == 0, np.nan, ((rid * 3 + salt) % 9) / 2.0)
    ks = pd.array([None if i % 7 == 0 else "abcdefgh"[(i * 5 + salt) % 8] for i in rid], dtype="string[pyarrow]")
    kc = pd.Categorical([None if i % 6 == 0 else ["u", "v", "w"][(i + salt) % 3] for i in rid], categories=["u", "v", "w", "zz"])
    pdf = pd.DataFrame({"ki": ki.astype("int64"), "kf": kf, "ks": ks, "kc": kc, "rid": rid, "v": rid * 2.5}, index=pd.Index((rid * 13 + salt) % 17, name="ix"))
    return pdf


def systematic(tier):
    N = 10 if tier == "quick" else 20
    mbs = [2, 3, 4, 8, 32]
    cases = []
    for n_in in range(1, N + 1):
        for n_out in range(1, N + 1):
            for mb in mbs:
                if mb > max(n_in, n_out) and mb != 32:
                    continue  # same route as max_branch=32
                for method in ("tasks", "disk"):
                    kinds = KEYS
                    for key in kinds:
                        cases.append({"n_in": n_in, "n_out": n_out, "max_branch": mb, "method": method, "key": key,
                                      "ignore_index": (n_in + n_out + mb) % 3 == 0 and key != "index"})
    # merge-consistency cases (int vs float keys)
    M = 6 if tier == "quick" else 12
    for nl in range(1, M + 1):
        for nr in range(1, M + 1):
            for method in ("tasks", "disk"):
                cases.append({"merge": True, "n_left": nl, "n_right": nr, "method": method, "npartitions": [None, 3, 7][(nl + nr) % 3]})
                # key placement: the (int) key is the named index of one side, referenced by name or as left_index/right_index
                pl = ["indexname-col", "col-indexname", "leftindex-col", "indexname-indexname"][(nl * 7 + nr) % 4]
                cases.append({"merge": True, "n_left": nl, "n_right": nr, "method": method, "npartitions": [None, 3, 7][(nl + nr + 1) % 3], "placement": pl})
    return cases


def _on(ddf, key):
    if key == "int":
        return {"on": "ki"}
    if key == "float":
        return {"on": "kf"}
    if key == "str":
        return {"on": "ks"}
    if key == "cat":
        return {"on": "kc"}
    if key == "two":
        return {"on": ["ki", "ks"]}
    if key == "index":
        return {"on_index": True}
    if key == "series":
        return {"on": ddf["ki"] % 5}
    raise ValueError(key)


def _keyvals(pdf_part, key):
    """hashable key per row of a computed partition"""
    def norm(v):
        return None if (v is None or v is pd.NA or (isinstance(v, float) and math.isnan(v)) or v is pd.NaT) else v

    if key == "int":
        return [int(v) for v in pdf_part["ki"]]
    if key == "float":
        return [norm(float(v)) for v in pdf_part["kf"]]
    if key == "str":
        return [norm(v) for v in pdf_part["ks"].astype(object)]
    if key == "cat":
        return [norm(v) for v in pdf_part["kc"].astype(object)]
    if key == "two":
        return list(zip([int(v) for v in pdf_part["ki"]], [norm(v) for v in pdf_part["ks"].astype(object)]))
    if key == "series":
        return [int(v) % 5 for v in pdf_part["ki"]]
    raise ValueError(key)


def _run_shuffle(pdf, n_in, case, key):
    import dask_expr as dx

    ddf = dx.from_pandas(pdf, npartitions=n_in, sort=False)
    kw = _on(ddf, key)
    sh = ddf.shuffle(npartitions=case["n_out"], shuffle_method=case["method"], max_branch=case["max_branch"], ignore_index=case["ignore_index"], **kw)
    return ddf, sh


def check(case):
    if case.get("merge"):
        return check_merge(case)
    failures = []
    key = case["key"]
    n_in, n_out = case["n_in"], case["n_out"]
    pdf = table(n_in)
    ddf, sh = _run_shuffle(pdf, n_in, case, key)
    assert ddf.npartitions == n_in, (ddf.npartitions, n_in)

    def fail(kind, detail, **extra):
        failures.append(Failure(kind, detail, extra={"bucket_hint": kind, **extra}).record())

    try:
        opt = sh.optimize()
        res, parts, _, _, low = plans.execute(opt.expr)
    except Exception as e:
        return {"failures": [Failure("shuffle-raises", f"{type(e).__name__}: {e}", exc=e).record()], "nontrivial": False}
    if sh.npartitions != n_out or len(parts) != n_out or opt.npartitions != n_out:
        fail("npartitions", f"requested {n_out}, reported {sh.npartitions}/{opt.npartitions}, computed {len(parts)}")
    allrows = pd.concat(parts) if parts else pdf.iloc[:0]
    # (1) permutation
    if sorted(allrows["rid"].tolist()) != list(range(len(pdf))):
        fail("not-a-permutation", f"rid multiset differs: got {sorted(allrows['rid'].tolist())[:12]}... n={len(allrows)} expected n={len(pdf)}")
    else:
        a = allrows.sort_values("rid")
        ref = pdf.sort_values("rid")
        for c in pdf.columns:
            if _col_equal(a[c].reset_index(drop=True), ref[c].reset_index(drop=True)) is not None:
                fail("values-changed", f"column {c} changed by the shuffle")
                break
        if not case["ignore_index"]:
            if a.index.tolist() != ref.index.tolist():
                fail("index-lost", "index labels did not travel with their rows (ignore_index=False)")
            if a.index.name != ref.index.name:
                fail("index-lost", f"index name {a.index.name!r} != {ref.index.name!r}")
    # (2) co-location
    where = {}
    if key == "index":
        kv_parts = [[int(v) for v in p.index] for p in parts] if not case["ignore_index"] else None
    else:
        kv_parts = [_keyvals(p, key) for p in parts]
    if kv_parts is not None:
        for i, kvs in enumerate(kv_parts):
            for k in kvs:
                if where.setdefault(k, i) != i:
                    fail("key-split", f"key {k!r} occurs in partitions {where[k]} and {i}")
                    break
    # (3) consistency with a second frame (other layout, other rows)
    if kv_parts is not None and not failures:
        n2 = (n_in % 5) + 1
        pdf2 = table(n2, salt=3)
        try:
            _, sh2 = _run_shuffle(pdf2, n2, case, key)
            _, parts2, _, _, _ = plans.execute(sh2.optimize().expr)
            if key == "index":
                kv2 = [[int(v) for v in p.index] for p in parts2]
            else:
                kv2 = [_keyvals(p, key) for p in parts2]
            for i, kvs in enumerate(kv2):
                for k in kvs:
                    if k in where and where[k] != i:
                        fail("inconsistent-across-frames", f"key {k!r}: partition {where[k]} in frame A ({n_in} inputs) but {i} in frame B ({n2} inputs), both shuffled to {n_out}")
                        break
        except Exception as e:
            failures.append(Failure("shuffle-raises", f"second frame: {type(e).__name__}: {e}", exc=e).record())
    # (5) subsets of output partitions (reordered, strided, windows wider than max_branch)
    if n_out >= 2 and not failures:
        mb = case["max_branch"]
        pair = sorted({(n_in * 2 + 1) % n_out, (n_out - 1)})
        if (n_in + n_out) % 2:
            pair = pair[::-1]
        subsets = [pair, list(range(n_out))[::-1]]
        if n_out >= 3:
            subsets.append(list(range(1, n_out, 2)))
            w = min(n_out - 1, mb + 2)
            subsets.append(list(range(1, 1 + w)))
        seen_sub = []
        for P in subsets:
            if P in seen_sub:
                continue
            seen_sub.append(P)
            try:
                sub = sh.partitions[P].optimize()
                _, sparts, _, _, _ = plans.execute(sub.expr)
                if len(sparts) != len(P):
                    fail("subset-npartitions", f"partitions[{P}] computed {len(sparts)} partitions")
                else:
                    for j, p in zip(P, sparts):
                        if sorted(p["rid"].tolist()) != sorted(parts[j]["rid"].tolist()):
                            fail("subset-differs", f"partitions[{P}] -> output partition {j} holds rids {sorted(p['rid'].tolist())[:8]} but the full shuffle has {sorted(parts[j]['rid'].tolist())[:8]}")
                            break
            except Exception as e:
                failures.append(Failure("subset-raises", f"partitions[{P}] of the shuffle raised {type(e).__name__}: {e}", exc=e, extra={"subset": P}).record())
            if failures:
                break
    stages = math.ceil(math.log(n_in) / math.log(case["max_branch"])) if n_in > 1 else 1
    nt = stages >= 2 or n_in != n_out
    classes = [f"method:{case['method']}", f"key:{key}", "multistage" if stages >= 2 else "singlestage", "grow" if n_out > n_in else ("shrink" if n_out < n_in else "same")]
    classes += ["plan:" + n for n in plans.classes_in(low) if "Shuffle" in n]
    return {
        "failures": failures,
        "nontrivial": [f"{n_in},{n_out},{case['max_branch']},{case['method']},{key}"] if nt else False,
        "classes": classes,
        "sample": case,
        "evaluations": 1,
    }


def check_merge(case):
    """int vs float keys: the two shuffles a hash join plans must agree."""
    import dask_expr as dx

    failures = []
    nl, nr = case["n_left"], case["n_right"]
    L = table(nl)[["ki", "rid"]].rename(columns={"rid": "lrid"})
    R = table(nr, salt=2)[["ki", "rid"]].rename(columns={"rid": "rrid"})
    R["ki"] = R["ki"].astype("float64")
    pl = case.get("placement", "col-col")
    mkw = {"on": "ki"}
    if pl.startswith("indexname") or pl.startswith("leftindex"):
        L = L.set_index("ki")  # int index, not sorted: unknown divisions
    if pl.endswith("indexname"):
        R = R.set_index("ki")  # float index
    if pl == "leftindex-col":
        mkw = {"left_index": True, "right_on": "ki"}
    dl = dx.from_pandas(L, npartitions=nl, sort=False)
    dr = dx.from_pandas(R, npartitions=nr, sort=False)
    kw = {}
    if case.get("npartitions"):
        kw["npartitions"] = case["npartitions"]
    m = dl.merge(dr, how="inner", shuffle_method=case["method"], broadcast=False, **mkw, **kw)
    try:
        opt = m.optimize(fuse=False)
        res, parts, cache, _, low = plans.execute(opt.expr)
    except Exception as e:
        return {"failures": [Failure("merge-raises", f"{type(e).__name__}: {e}", exc=e).record()], "nontrivial": False}
    exp = L.merge(R, how="inner", **mkw)
    got = sorted(zip(res["lrid"].tolist(), res["rrid"].tolist()))
    want = sorted(zip(exp["lrid"].tolist(), exp["rrid"].tolist()))
    if got != want:
        failures.append(Failure("merge-rows", f"hash join of int vs float keys: {len(got)} rows, expected {len(want)}", extra={"bucket_hint": "merge-rows"}).record())
    # direct observation of the two shuffles
    shuffles = [e for e in low.walk() if type(e).__name__ in ("TaskShuffle", "DiskShuffle")]
    names = []
    for e in shuffles:
        if e._name not in names:
            names.append(e._name)
    observed = 0
    if len(names) == 2:
        byname = {e._name: e for e in shuffles}
        maps = []
        for nm in names:
            e = byname[nm]
            mp = {}
            for i in range(e.npartitions):
                p = cache.get((nm, i))
                if p is None:
                    continue
                for k in (p["ki"] if "ki" in p.columns else p.index).tolist():
                    mp.setdefault(float(k), set()).add(i)
            maps.append(mp)
        observed = 1
        for k in set(maps[0]) & set(maps[1]):
            if maps[0][k] != maps[1][k] or len(maps[0][k]) != 1:
                failures.append(Failure("join-shuffles-disagree", f"key {k}: left shuffle -> partitions {sorted(maps[0][k])}, right shuffle -> {sorted(maps[1][k])}", extra={"bucket_hint": "join-shuffles-disagree"}).record())
                break
    return {
        "failures": failures,
        "nontrivial": [f"merge,{nl},{nr},{case['method']},{case.get('npartitions')},{pl}"] if observed and nl != nr else False,
        "classes": ["merge-consistency", f"method:{case['method']}", f"placement:{pl}", "shuffles_observed" if observed else "shuffles_not_observed"],
        "sample": case,
        "evaluations": 1,
    }


def coverage_extra(tier, agg):
    N = 10 if tier == "quick" else 20
    return {"exhaustive": agg["skipped_budget"] == 0, "bounds": {"n_in,n_out": [1, N], "max_branch": [2, 3, 4, 8, 32], "methods": ["tasks", "disk"], "keys": KEYS}}
