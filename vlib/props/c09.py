"""C09 — task graphs are closed, acyclic, unambiguous and free of planner
objects (DESIGN §3 C09).  Validity predicate over dict(expr.__dask_graph__())
for every stage of generated programs."""
from .. import gen, graphcheck, interp, plans, templates
from ..runner import Failure

LEVEL = "exploration"
RULE = (
    "Hypothesis-generated typed programs (C01 profile plus persist / delayed / legacy re-imports, partition selections) + templates; for every stage "
    "(unoptimized, simplified-logical, tuned-logical, physical, simplified-physical, fused) x shuffle {tasks,disk} the materialised graph is checked: "
    "output keys defined, every key-shaped reference (also inside fused sub-graphs) defined, acyclic, no key produced by two expressions, no Expr/collection "
    "object in any task, cloudpickle under dask-expr-no-serialize, and the graph executes. non-trivial = the plan has >=2 multi-key layers or a fused task; "
    "distinct by program hash"
)
ASSUMPTIONS = ["key-shaped = tuple (name, int...) whose name is an expression of the plan or the head of a graph key"]
BUDGET_S = {"quick": 170, "thorough": 900}

PROFILE_Q = gen.Profile("graphs", max_steps=6, max_rows=10, siblings=25, weights={"cut": 1.0, "partitions": 1.2, "map_partitions": 1.2, "rolling": 0.8, "shift": 1.2, "cum": 1.0, "groupby_window": 0.5, "map_overlap": 0.8})
PROFILE_T = gen.Profile("graphs", max_steps=10, max_rows=16, n_tables=(1, 3), siblings=25, weights={"cut": 1.0, "partitions": 1.2, "map_partitions": 1.2, "rolling": 0.8, "shift": 1.2, "cum": 1.0, "groupby_window": 0.5, "map_overlap": 0.8})


def systematic(tier):
    return templates.c01_cases(tier) + templates.sibling_cases(tier)


def strategy(tier):
    from hypothesis import strategies as st

    prof = PROFILE_Q if tier == "quick" else PROFILE_T
    return st.builds(lambda p, sh: dict(p, config={"shuffle": sh}), gen.programs(prof), st.sampled_from(["tasks", "disk"]))


def n_random(tier):
    return 2400 if tier == "quick" else 15000


def check(case):
    prog = case
    out_id = prog["out"][0]
    failures = []
    classes = []
    nt = False
    with plans.config(prog.get("config")):
        try:
            dvals = interp.run_dask(prog)
            expr = dvals[out_id].expr
            ref, _, _, _, _ = plans.execute(expr)
        except Exception as e:
            return {"nontrivial": False, "classes": ["unoptimized_fails:" + type(e).__name__], "counters": {"unoptimized_fails": 1}}
        for stage in ["logical"] + plans.STAGES:
            try:
                se = plans.optimize_until(expr, stage)
                low = se.lower_completely()
                g = dict(low.__dask_graph__())
            except Exception:
                # a stage that cannot be planned is C01/C19's business; there is no graph to judge
                classes.append("stage_unavailable")
                break
            problems, info = graphcheck.check_graph(low, g)
            for kind, detail in problems[:3]:
                failures.append(Failure(kind, f"{stage}: {detail}", stage=stage, extra={"bucket_hint": kind}).record())
            if info["multi_layers"] >= 2 or info["fused_tasks"]:
                nt = True
            if info["fused_tasks"]:
                classes.append("fused_tasks")
            if problems:
                break
            try:
                plans.execute(low)
            except Exception as e:
                failures.append(Failure("graph-exec-raises", f"{stage}: {type(e).__name__}: {e}", stage=stage, exc=e).record())
                break
        # several values of one program computed together share one graph
        if not failures and len(prog["steps"]) >= 2:
            for stage in ("logical", "fused"):
                lows = {}
                for vid, v in dvals.items():
                    if not hasattr(v, "expr"):
                        continue
                    try:
                        lows[vid] = plans.optimize_until(v.expr, stage).lower_completely()
                    except Exception:
                        continue
                for kind, detail in graphcheck.cross_collisions(lows)[:2]:
                    failures.append(Failure(kind, f"{stage} (values computed together): {detail}", stage=stage, extra={"bucket_hint": kind + "-cross"}).record())
                if failures:
                    break
            classes.append("cross_value_graph")
    classes += ["op:" + s["op"] for s in prog["steps"]]
    return {"nontrivial": nt, "classes": classes, "failures": failures, "sample": interp.describe(prog), "evaluations": 1}


def shrink_candidates(case):
    from ..shrink import program_candidates

    return program_candidates(case)
