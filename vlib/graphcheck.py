"""Validity predicate over materialised task graphs (C09) and structural
predicates over plans (C06/C07)."""
import functools
import pickle

import dask
from dask.core import istask


def all_exprs(expr):
    """Every expression of the plan, including the members of fused groups."""
    from dask_expr._core import Expr

    seen = {}
    stack = [expr]
    while stack:
        e = stack.pop()
        if e._name in seen:
            continue
        seen[e._name] = e
        for op in e.operands:
            if isinstance(op, Expr):
                stack.append(op)
            elif isinstance(op, (list, tuple)):
                for o in op:
                    if isinstance(o, Expr):
                        stack.append(o)
    return seen


def _is_keyshaped(x, names):
    return (
        isinstance(x, tuple)
        and len(x) >= 2
        and isinstance(x[0], str)
        and x[0] in names
        and all(isinstance(i, int) and not isinstance(i, bool) for i in x[1:])
    )


def _hashable(x):
    try:
        hash(x)
        return True
    except TypeError:
        return False


def scan_task(task, names, on_key, on_planner, depth=0, defined=()):
    """Walk a task; report key-shaped references and planner objects.
    A tuple that *is* a defined key (keys may be nested tuples, e.g. the key of
    a delayed object that was itself a collection partition) is a resolved
    reference and is not descended into."""
    from dask_expr._collection import FrameBase
    from dask_expr._core import Expr
    from dask_expr._expr import Fused

    if depth > 30:
        return
    if isinstance(task, (Expr, FrameBase)):
        on_planner(task)
        return
    if isinstance(task, tuple):
        if task and _hashable(task) and task in defined:
            return
        if _is_keyshaped(task, names):
            on_key(task)
            return
        if task and callable(task[0]) and task[0] is Fused._execute_task and len(task) >= 3 and isinstance(task[1], dict):
            # embedded sub-graph: checked separately
            on_key(("__fused__", task))
            return
        for t in task:
            scan_task(t, names, on_key, on_planner, depth + 1, defined)
        return
    if isinstance(task, list):
        for t in task:
            scan_task(t, names, on_key, on_planner, depth + 1, defined)
        return
    if isinstance(task, dict):
        for k, v in task.items():
            scan_task(v, names, on_key, on_planner, depth + 1, defined)
        return
    if isinstance(task, functools.partial):
        scan_task(task.args, names, on_key, on_planner, depth + 1, defined)
        scan_task(task.keywords, names, on_key, on_planner, depth + 1, defined)
        return


def _same_task(a, b):
    if a is b:
        return True
    try:
        from dask.base import tokenize

        return tokenize(a) == tokenize(b)
    except Exception:
        return False


def check_graph(expr, graph=None):
    """expr must be fully lowered.  Returns list of (kind, detail)."""
    problems = []
    g = graph if graph is not None else dict(expr.__dask_graph__())
    exprs = all_exprs(expr)
    names = set(exprs)
    for k in g:
        if isinstance(k, tuple) and k and isinstance(k[0], str):
            names.add(k[0])
    # (1) output keys
    for i in range(expr.npartitions):
        if (expr._name, i) not in g:
            problems.append(("missing-output-key", f"({expr._name!r}, {i}) not defined; npartitions={expr.npartitions}"))
            break
    # (2) closure and (5) planner objects
    nfused = [0]

    def check_tasks(graph, where, extra_defined=()):
        for k, task in graph.items():
            refs = []
            planners = []
            scan_task(task, names, refs.append, planners.append, 0, set(graph) | set(extra_defined))
            for p in planners:
                problems.append(("planner-object-in-task", f"task {k!r} {where} embeds a {type(p).__name__}"))
            for r in refs:
                if r[0] == "__fused__":
                    ft = r[1]
                    sub = ft[1]
                    nfused[0] += 1
                    # external deps are the trailing arguments; they must exist in the *outer* graph
                    for dep in ft[3:]:
                        if dep not in graph and dep not in extra_defined:
                            problems.append(("dangling-reference", f"fused task {k!r} depends on {dep!r} which is not defined"))
                    placeholders = {v for v in sub.values() if isinstance(v, str) and v.startswith("_") and v[1:].isdigit()}
                    want = {"_" + str(i) for i in range(len(ft) - 3)}
                    if not placeholders <= want:
                        problems.append(("fused-placeholders", f"fused task {k!r}: placeholders {sorted(placeholders)} != dependencies {sorted(want)}"))
                    check_tasks({kk: vv for kk, vv in sub.items()}, f"(inside fused {k!r})", extra_defined=set(sub))
                    if ft[2] not in sub:
                        problems.append(("dangling-reference", f"fused task {k!r}: root {ft[2]!r} not in its sub-graph"))
                    continue
                if r not in graph and r not in extra_defined:
                    problems.append(("dangling-reference", f"task {k!r} {where} references {r!r} which is not defined"))

    check_tasks(g, "")
    # (3) acyclic
    try:
        dask.core.toposort(g)
    except Exception as e:
        problems.append(("cycle", f"{type(e).__name__}: {e}"))
    # (4) unambiguous: layers of distinct expressions must not share keys
    owner = {}
    stack = [expr]
    seen = set()
    nlayers = 0
    while stack:
        e = stack.pop()
        if e._name in seen:
            continue
        seen.add(e._name)
        try:
            layer = e._layer()
        except Exception as ex:
            problems.append(("layer-raises", f"{type(e).__name__}._layer(): {type(ex).__name__}: {ex}"))
            layer = {}
        if len(layer) > 1:
            nlayers += 1
        for k in layer:
            if k in owner and owner[k][0] != e._name and not _same_task(owner[k][1], layer[k]):
                problems.append(("key-collision", f"key {k!r} defined with different tasks by {owner[k][0]} and {e._name}"))
            owner[k] = (e._name, layer[k])
        stack.extend(e.dependencies())
    # (5b) serialisable without planner objects
    try:
        with dask.config.set({"dask-expr-no-serialize": True}):
            import cloudpickle

            cloudpickle.dumps(g)
    except Exception as e:
        problems.append(("graph-not-serialisable", f"{type(e).__name__}: {str(e)[:300]}"))
    info = {"nkeys": len(g), "nexprs": len(exprs), "multi_layers": nlayers, "fused_tasks": nfused[0]}
    return problems, info


def cross_collisions(exprs_by_value):
    """Key collisions across several lowered plans that may be computed in one
    graph (dask.compute(a, b) merges their graphs).  exprs_by_value: {id: lowered expr}"""
    owner = {}
    problems = []
    seen = set()
    for vid, expr in exprs_by_value.items():
        stack = [expr]
        while stack:
            e = stack.pop()
            if e._name in seen:
                continue
            seen.add(e._name)
            try:
                layer = e._layer()
            except Exception:
                layer = {}
            imported = type(e).__name__ in ("FromGraph", "_DelayedExpr")
            for k, t in layer.items():
                if k in owner and owner[k][0] != e._name and not (imported or owner[k][3]) and not _same_task(owner[k][1], t):
                    problems.append(("key-collision", f"key {k!r} defined with different tasks by {owner[k][0]} and {e._name} (values {owner[k][2]} and {vid} of one program)"))
                # a persisted / imported graph keeps the key names of the computation it holds the
                # *results* of: same key, same value, by design (dask's persist contract)
                owner[k] = (e._name, t, vid, imported)
            stack.extend(e.dependencies())
    return problems
