"""Matchers for known findings (DESIGN §2.8).  matcher(case, failure_record) -> bool."""
