"""Matchers for known findings (DESIGN §2.8).  matcher(case, failure_record) -> bool."""


def d19_single_value_forced_extension(case, rec):
    """C13: forced extension of a single-value frame (old divisions (x, x)) to
    new divisions [.., .., x, x] with >= 2 boundaries below x loses the rows."""
    if not isinstance(case, dict) or case.get("mode") != "divisions" or not case.get("force"):
        return False
    old, new = case["old"], case["new"]
    return (
        rec.get("kind") == "rows-or-order"
        and len(old) == 2 and old[0] == old[1]
        and len(new) >= 4 and new[-1] == new[-2] == old[0]
        and new[0] < new[1] < old[0]
    )


def d35_imported_graph_name_after_pickle(case, rec):
    """C16: only the *name* of a collection that holds an imported graph (persist / legacy
    round trip => FromGraph with pandas partitions inside) changes across pickling."""
    if rec.get("kind") != "unpickled-differs" or rec.get("bucket_hint") != "name":
        return False
    prog = rec.get("program") or (case.get("batch") or [None])[0]
    if not prog:
        return False
    return any(s["op"] == "cut" and s["args"].get("how") in ("persist", "legacy", "legacy_noopt") for s in prog["steps"])


def _last_step(case):
    prog = case
    if isinstance(case, dict) and "steps" not in case and "t" in case:
        from .props import c02

        prog, _ = c02.expand(case)
    if not isinstance(prog, dict) or not prog.get("steps"):
        return None, None
    return prog, prog["steps"][-1]


def d9_groupby_fill_disk_shuffle(case, rec):
    """C02: groupby ffill/bfill as the final operation, disk shuffle configured."""
    if rec.get("kind") != "differs-from-pandas":
        return False
    prog, last = _last_step(case)
    if last is None or (prog.get("config") or {}).get("shuffle") != "disk":
        return False
    return last["op"] == "groupby_window" and last["args"].get("how") in ("ffill", "bfill")


def d44_groupby_first_last_split_out_disk(case, rec):
    """C02: groupby first/last with split_out > 1 as the final operation, disk shuffle configured."""
    if rec.get("kind") != "differs-from-pandas":
        return False
    prog, last = _last_step(case)
    if last is None or (prog.get("config") or {}).get("shuffle") != "disk":
        return False
    a = last["args"]
    hows = {a.get("how")} | set((a.get("agg") or {}).values())
    return last["op"] == "groupby_agg" and (a.get("split_out") or 1) > 1 and bool(hows & {"first", "last"})


def d12_groupby_idx_extreme(case, rec):
    """C02: groupby idxmin/idxmax as the final operation (wrong for any layout in which a group spans partitions)."""
    if rec.get("kind") != "differs-from-pandas":
        return False
    prog, last = _last_step(case)
    if last is None:
        return False
    return last["op"] == "groupby_agg" and last["args"].get("how") in ("idxmax", "idxmin")


def d47_fused_parquet_changes_partition_count(case, rec):
    """C11: parquet source whose optimized plan has another partition count (IO fusion) - selections / to_delayed / head refer to the fused partitioning."""
    return bool(rec.get("optimize_changes_partition_count")) and str(rec.get("source", "")).startswith("read_parquet") and rec.get("kind") in (
        "selection-npartitions", "to_delayed-length", "head-differs", "tail-differs", "selection-differs", "to_delayed-differs", "selection-raises", "selection-divisions")


def d50_fsspec_userfilter_divisions_keyerror(case, rec):
    """C18: fsspec reader + calculate_divisions + user filters= -> KeyError 'name' from dask's sorted_columns."""
    return (rec.get("kind") in ("query-raises", "read-raises") and rec.get("reader") == "fsspec" and rec.get("exc_type") == "KeyError"
            and "'name'" in str(rec.get("exc_msg", "")) and bool(case.get("calc_div")) and "user filters" in str(rec.get("detail", "")))


def d69_groupby_cov_missing_values(case, rec):
    """C02: groupby cov()/corr() as the final operation over columns that contain missing values
    (pinned dask's _cov_chunk/_cov_finalizer mix per-column sums with pairwise products)."""
    if rec.get("kind") != "differs-from-pandas":
        return False
    prog, last = _last_step(case)
    if last is None or last["op"] != "groupby_holistic" or last["args"].get("how") not in ("cov", "corr"):
        return False
    try:
        from . import interp

        x = interp.run_pandas(prog)[last["in"][0]]
        return bool(x[list(last["args"]["cols"])].isna().any().any())
    except Exception:
        return False


def d70_groupby_shift_repeating_index_disk(case, rec):
    """C02: groupby shift as the final operation under the disk shuffle on a frame whose index labels repeat
    (the row order inside a group is restored by sorting on the index, which cannot separate equal labels)."""
    if rec.get("kind") != "differs-from-pandas":
        return False
    prog, last = _last_step(case)
    if last is None or (prog.get("config") or {}).get("shuffle") != "disk":
        return False
    if last["op"] != "groupby_window" or last["args"].get("how") != "shift":
        return False
    try:
        from . import interp

        x = interp.run_pandas(prog)[last["in"][0]]
        return not x.index.is_unique
    except Exception:
        return False


def d74_frame_reduction_divisions_after_optimize(case, rec):
    """C17: the result of a reduction over the rows of a FRAME (a Series labelled by the column names) reports the divisions
    (min(columns), max(columns)) on the logical plan and unknown divisions once lowered; persist()/legacy export optimize first."""
    if rec.get("kind") != "cut-changes-divisions" or not rec.get("cut_divisions_unknown") or not isinstance(case, dict) or "steps" not in case:
        return False
    vid = (rec.get("cut") or [None])[0]
    step = next((s for s in case["steps"] if s["id"] == vid), None)
    if step is None or step["op"] not in ("reduce", "frame_stat", "frame_nunique", "reduction_custom"):
        return False
    try:
        from . import interp, ops

        pv = interp.run_pandas(case)
        return ops.kind_of(pv[step["in"][0]]) == "frame" and ops.kind_of(pv[vid]) in ("series", "frame")
    except Exception:
        return False


def d100_repartition_of_sorted_empty_frame(case, rec):
    """C06: x = <frame without rows>.sort_values(...).repartition(npartitions=n); the partition count reported by x and by collections
    derived from it is the one of the *optimized* repartition (the sort of an empty frame has one output partition), while a derived query
    whose own optimized plan keeps the repartition above the sort computes n partitions."""
    if rec.get("kind") not in ("npartitions-mismatch", "divisions-length") or not isinstance(case, dict) or "steps" not in case:
        return False
    try:
        from . import interp

        pv = interp.run_pandas(case)
    except Exception:
        return False
    by_id = {s["id"]: s for s in case["steps"]}

    def upstream(vid, seen=()):
        s = by_id.get(vid)
        if s is None:
            return []
        out = [s]
        for i in s["in"]:
            out += upstream(i)
        return out

    vid = rec.get("value")
    chain = upstream(vid)
    for s in chain:
        if s["op"] == "repartition":
            src = upstream(s["in"][0])
            if any(t["op"] in ("sort_values", "set_index") for t in src) and hasattr(pv.get(s["in"][0]), "__len__") and len(pv[s["in"][0]]) == 0:
                return True
    return False


def d103_combine_first_empty_partition_column_order(case, rec):
    """C07: combine_first where `other` has additional columns: an EMPTY partition orders the union of the columns differently from the
    non-empty ones (pandas), so its labels differ from the declared ones in ORDER only."""
    if rec.get("kind") != "partition-labels" or not isinstance(case, dict) or "steps" not in case:
        return False
    step = next((s for s in case["steps"] if s["id"] == rec.get("value")), None)
    if step is None or step["op"] != "combine_first":
        return False
    import re

    m = re.findall(r"\[([^\]]*)\]", rec.get("detail", ""))
    return len(m) >= 2 and sorted(m[0].split(", ")) == sorted(m[1].split(", ")) and m[0] != m[1]


def d104_reimport_converts_object_columns_to_string(case, rec):
    """C17: from_delayed / from_legacy_dataframe apply the pyarrow-string conversion to every object column of the re-imported
    partitions, also to object columns that hold non-string values (a shifted bool column)."""
    return rec.get("kind") == "cut-changes-result" and "string != object" in rec.get("detail", "") and (rec.get("cut") or [None, ""])[1] in ("delayed", "delayed_nodiv", "legacy", "legacy_noopt")
