"""Matchers for known findings (DESIGN §2.8).  matcher(case, failure_record) -> bool."""


def d19_single_value_forced_extension(case, rec):
    """C13: forced extension of a single-value frame (old divisions (x, x)) to
    new divisions [.., .., x, x] with >= 2 boundaries below x loses the rows."""
    if not isinstance(case, dict) or case.get("mode") != "divisions" or not case.get("force"):
        return False
    old, new = case["old"], case["new"]
    return (
        rec.get("kind") == "rows-or-order"
        and len(old) == 2 and old[0] == old[1]
        and len(new) >= 4 and new[-1] == new[-2] == old[0]
        and new[0] < new[1] < old[0]
    )


def d35_imported_graph_name_after_pickle(case, rec):
    """C16: only the *name* of a collection that holds an imported graph (persist / legacy
    round trip => FromGraph with pandas partitions inside) changes across pickling."""
    if rec.get("kind") != "unpickled-differs" or rec.get("bucket_hint") != "name":
        return False
    prog = rec.get("program") or (case.get("batch") or [None])[0]
    if not prog:
        return False
    return any(s["op"] == "cut" and s["args"].get("how") in ("persist", "legacy", "legacy_noopt") for s in prog["steps"])
