"""Operator catalogue (DESIGN §2.2/§2.4).

Every operator has
  gen(draw, ins)            -> args dict, or None when not applicable
  apply(side, objs, args)   -> result ('dask' or 'pandas' side)
  flags(ins, args, out)     -> Flags of the result

``ins`` is a list of (pandas_value, Flags).  The generator carries the
concrete pandas value of every SSA value, so applicability is decided from
real columns/dtypes/ties (construction, not rejection).
"""
import operator
from dataclasses import dataclass, replace

import numpy as np
import pandas as pd

from . import udfs

OPS = {}


@dataclass(frozen=True)
class Flags:
    ordered: bool = True  # row order is defined by the query
    indexed: bool = True  # index labels are defined by the query
    rowset: str = ""  # values with the same token are co-aligned
    pandas_ok: bool = True  # the pandas value is a valid reference
    layout: bool = True  # the partition boundaries are defined by the query (not by a shuffle/sort algorithm)
    defined: bool = True  # False: several results satisfy the query (partial head/tail of an algorithm-partitioned frame)
    srcs: tuple = ()


def kind_of(x):
    if isinstance(x, pd.DataFrame):
        return "frame"
    if isinstance(x, pd.Series):
        return "series"
    if isinstance(x, pd.Index):
        return "index"
    return "scalar"


def col_kind(dt):
    if isinstance(dt, pd.CategoricalDtype):
        return "cat"
    k = getattr(dt, "kind", "O")
    if k in "iu":
        return "int"
    if k == "f":
        return "float"
    if k == "b":
        return "bool"
    if k == "M":
        return "dt"
    if k == "m":
        return "td"
    return "str"


def cols_of(pdf, kinds):
    return [c for c in pdf.columns if col_kind(pdf[c].dtype) in kinds]


def register(name, arity=1, kinds=None, weight=1.0, tags=()):
    def deco(cls):
        cls.name = name
        cls.arity = arity
        cls.in_kinds = kinds
        cls.weight = weight
        cls.tags = set(tags)
        OPS[name] = cls
        return cls

    return deco


class Op:
    @staticmethod
    def gen(draw, ins):
        return {}

    @staticmethod
    def flags(ins, args, out):
        return ins[0][1]


def st():
    from hypothesis import strategies

    return strategies


def _subset(draw, items, min_size=1, max_size=None):
    items = list(items)
    s = st()
    idx = draw(s.lists(s.integers(0, len(items) - 1), min_size=min_size, max_size=max_size or len(items), unique=True))
    return [items[i] for i in idx]


BIN = {
    "add": operator.add,
    "sub": operator.sub,
    "mul": operator.mul,
    "gt": operator.gt,
    "lt": operator.lt,
    "ge": operator.ge,
    "le": operator.le,
    "eq": operator.eq,
    "ne": operator.ne,
    "and": operator.and_,
    "or": operator.or_,
    "truediv": operator.truediv,
}
ARITH = ["add", "sub", "mul"]
CMP = ["gt", "lt", "ge", "le", "eq", "ne"]


# ------------------------------------------------------------------ column-wise


@register("cols", kinds=("frame",), weight=3, tags={"proj", "rowwise"})
class Cols(Op):
    @staticmethod
    def gen(draw, ins):
        pdf = ins[0][0]
        if len(pdf.columns) < 1:
            return None
        return {"cols": _subset(draw, pdf.columns)}

    @staticmethod
    def apply(side, objs, args):
        return objs[0][list(args["cols"])]


@register("col", kinds=("frame",), weight=3, tags={"proj", "rowwise"})
class Col(Op):
    @staticmethod
    def gen(draw, ins):
        pdf = ins[0][0]
        if len(pdf.columns) < 1:
            return None
        return {"col": draw(st().sampled_from(list(pdf.columns)))}

    @staticmethod
    def apply(side, objs, args):
        return objs[0][args["col"]]


@register("drop", kinds=("frame",), tags={"proj", "rowwise"})
class Drop(Op):
    @staticmethod
    def gen(draw, ins):
        pdf = ins[0][0]
        if len(pdf.columns) < 2:
            return None
        return {"cols": _subset(draw, pdf.columns, max_size=len(pdf.columns) - 1)}

    @staticmethod
    def apply(side, objs, args):
        return objs[0].drop(columns=list(args["cols"]))


@register("rename", kinds=("frame",), tags={"proj", "rowwise"})
class Rename(Op):
    @staticmethod
    def gen(draw, ins):
        pdf = ins[0][0]
        if len(pdf.columns) < 1:
            return None
        cs = _subset(draw, pdf.columns, max_size=2)
        m = {}
        for c in cs:
            new = draw(st().sampled_from([f"{c}_r", f"{c}_x", "zz"]))
            if new in pdf.columns or new in m.values():
                continue
            m[c] = new
        if not m:
            return None
        return {"map": m}

    @staticmethod
    def apply(side, objs, args):
        return objs[0].rename(columns=dict(args["map"]))


@register("add_affix", kinds=("frame",), weight=0.5, tags={"proj", "rowwise"})
class AddAffix(Op):
    @staticmethod
    def gen(draw, ins):
        return {"how": draw(st().sampled_from(["prefix", "suffix"])), "s": draw(st().sampled_from(["p_", "_x", "_y"]))}

    @staticmethod
    def apply(side, objs, args):
        return objs[0].add_prefix(args["s"]) if args["how"] == "prefix" else objs[0].add_suffix(args["s"])


def _expr_term(draw, pdf, allow_red=True):
    """A small arithmetic expression over numeric columns, as data."""
    s = st()
    num = cols_of(pdf, ("int", "float"))
    if not num:
        return None
    a = draw(s.sampled_from(num))
    form = draw(s.integers(0, 3 if allow_red else 2))
    if form == 0:
        return {"a": a, "op": draw(s.sampled_from(ARITH)), "c": draw(s.integers(-2, 3))}
    if form == 1:
        return {"a": a, "op": draw(s.sampled_from(ARITH)), "b": draw(s.sampled_from(num))}
    if form == 2:
        return {"a": a, "op": draw(s.sampled_from(ARITH)), "c": draw(s.integers(1, 3)), "rc": True}
    return {"a": a, "op": draw(s.sampled_from(["sub", "add", "gt"])), "red": draw(s.sampled_from(["sum", "max", "min", "mean", "count"]))}


def eval_term(obj, t):
    a = obj[t["a"]]
    f = BIN[t["op"]]
    if "b" in t:
        return f(a, obj[t["b"]])
    if "red" in t:
        return f(a, getattr(a, t["red"])())
    if t.get("rc"):
        return f(t["c"], a)
    return f(a, t["c"])


@register("assign", kinds=("frame",), weight=3, tags={"rowwise"})
class Assign(Op):
    @staticmethod
    def gen(draw, ins):
        pdf = ins[0][0]
        s = st()
        n = draw(s.integers(1, 2))
        out = []
        cols = list(pdf.columns)
        for _ in range(n):
            name = draw(s.sampled_from(["z", "y", "w"] + cols[:3]))
            if draw(s.integers(0, 4)) == 0:
                out.append([name, {"const": draw(s.integers(0, 3))}])
            else:
                t = _expr_term(draw, pdf)
                if t is None:
                    out.append([name, {"const": 1}])
                else:
                    out.append([name, t])
        # later keys may only use original columns (kwargs are evaluated against the input frame)
        return {"items": out}

    @staticmethod
    def apply(side, objs, args):
        obj = objs[0]
        kw = {}
        for name, t in args["items"]:
            kw[name] = t["const"] if "const" in t else eval_term(obj, t)
        return obj.assign(**kw)


@register("astype", kinds=("frame", "series"), weight=0.7, tags={"rowwise"})
class AsType(Op):
    @staticmethod
    def gen(draw, ins):
        x = ins[0][0]
        if kind_of(x) == "series":
            if col_kind(x.dtype) != "int":
                return None
            return {"to": "float64"}
        ints = cols_of(x, ("int",))
        if not ints:
            return None
        return {"to": {draw(st().sampled_from(ints)): "float64"}}

    @staticmethod
    def apply(side, objs, args):
        return objs[0].astype(args["to"])


@register("fillna", kinds=("frame", "series"), tags={"rowwise"})
class FillNa(Op):
    @staticmethod
    def gen(draw, ins):
        x = ins[0][0]
        v = draw(st().integers(-1, 2))
        if kind_of(x) == "series":
            if col_kind(x.dtype) != "float":
                return None
            return {"value": float(v)}
        fl = cols_of(x, ("float",))
        if not fl:
            return None
        return {"value": {c: float(v) for c in _subset(draw, fl)}}

    @staticmethod
    def apply(side, objs, args):
        return objs[0].fillna(args["value"])


@register("unary", kinds=("frame", "series"), weight=0.7, tags={"rowwise"})
class Unary(Op):
    @staticmethod
    def gen(draw, ins):
        x = ins[0][0]
        if kind_of(x) == "series":
            k = col_kind(x.dtype)
            if k in ("int", "float"):
                return {"f": draw(st().sampled_from(["abs", "neg", "isna", "notnull", "round"]))}
            if k == "bool":
                return {"f": draw(st().sampled_from(["invert", "isna"]))}
            return {"f": draw(st().sampled_from(["isna", "notnull"]))}
        if len(x.columns) and all(col_kind(d) in ("int", "float") for d in x.dtypes):
            return {"f": draw(st().sampled_from(["abs", "neg", "isna", "round"]))}
        return {"f": draw(st().sampled_from(["isna", "notnull"]))}

    @staticmethod
    def apply(side, objs, args):
        f = args["f"]
        x = objs[0]
        if f == "neg":
            return -x
        if f == "invert":
            return ~x
        if f == "round":
            return x.round(0)
        return getattr(x, f)()


@register("binop_scalar", kinds=("series", "frame"), weight=2, tags={"rowwise"})
class BinopScalar(Op):
    @staticmethod
    def gen(draw, ins):
        x = ins[0][0]
        s = st()
        if kind_of(x) == "series":
            k = col_kind(x.dtype)
            if k in ("int", "float"):
                return {"op": draw(s.sampled_from(ARITH + CMP)), "c": draw(s.integers(-2, 3)), "r": draw(s.booleans())}
            if k == "str":
                return {"op": draw(s.sampled_from(["eq", "ne"])), "c": draw(s.sampled_from(["a", "b", "q"])), "r": False}
            return None
        if len(x.columns) and all(col_kind(d) in ("int", "float") for d in x.dtypes):
            return {"op": draw(s.sampled_from(ARITH + CMP)), "c": draw(s.integers(-2, 3)), "r": draw(s.booleans())}
        return None

    @staticmethod
    def apply(side, objs, args):
        f = BIN[args["op"]]
        return f(args["c"], objs[0]) if args.get("r") and args["op"] in ARITH else f(objs[0], args["c"])


@register("binop", arity=2, kinds=("series", "series"), weight=2, tags={"rowwise", "aligned"})
class Binop(Op):
    @staticmethod
    def gen(draw, ins):
        (a, fa), (b, fb) = ins
        if fa.rowset != fb.rowset:
            return None
        ka, kb = col_kind(a.dtype), col_kind(b.dtype)
        s = st()
        if ka in ("int", "float") and kb in ("int", "float"):
            return {"op": draw(s.sampled_from(ARITH + CMP))}
        if ka == "bool" and kb == "bool":
            return {"op": draw(s.sampled_from(["and", "or"]))}
        return None

    @staticmethod
    def apply(side, objs, args):
        return BIN[args["op"]](objs[0], objs[1])


@register("series_red_reuse", kinds=("series",), weight=1.5, tags={"rowwise", "reduction_reuse"})
class SeriesRedReuse(Op):
    @staticmethod
    def gen(draw, ins):
        x = ins[0][0]
        if col_kind(x.dtype) not in ("int", "float"):
            return None
        s = st()
        return {"op": draw(s.sampled_from(["sub", "add", "gt", "le", "mul"])), "red": draw(s.sampled_from(["sum", "max", "min", "mean", "count"]))}

    @staticmethod
    def apply(side, objs, args):
        x = objs[0]
        return BIN[args["op"]](x, getattr(x, args["red"])())


@register("isin", kinds=("series",), weight=0.7, tags={"rowwise"})
class IsIn(Op):
    @staticmethod
    def gen(draw, ins):
        x = ins[0][0]
        k = col_kind(x.dtype)
        s = st()
        if k in ("int", "float"):
            return {"values": draw(s.lists(s.integers(-1, 3), min_size=1, max_size=3))}
        if k == "str":
            return {"values": draw(s.lists(s.sampled_from(["a", "b", "q"]), min_size=1, max_size=2))}
        return None

    @staticmethod
    def apply(side, objs, args):
        return objs[0].isin(list(args["values"]))


@register("where", arity=2, kinds=("any", "series"), weight=0.8, tags={"rowwise", "aligned"})
class Where(Op):
    @staticmethod
    def gen(draw, ins):
        (a, fa), (b, fb) = ins
        if kind_of(a) not in ("frame", "series") or fa.rowset != fb.rowset or col_kind(b.dtype) != "bool":
            return None
        if kind_of(a) == "series":
            if col_kind(a.dtype) not in ("int", "float"):
                return None
        elif not (len(a.columns) and all(col_kind(d) in ("int", "float") for d in a.dtypes)):
            return None
        s = st()
        return {"how": draw(s.sampled_from(["where", "mask"])), "other": draw(s.sampled_from([None, 0, -1]))}

    @staticmethod
    def apply(side, objs, args):
        f = getattr(objs[0], args["how"])
        if args["other"] is None:
            return f(objs[1])
        return f(objs[1], args["other"])


@register("clip", kinds=("series",), weight=0.4, tags={"rowwise"})
class Clip(Op):
    @staticmethod
    def gen(draw, ins):
        if col_kind(ins[0][0].dtype) not in ("int", "float"):
            return None
        lo = draw(st().integers(-2, 1))
        return {"lower": lo, "upper": lo + draw(st().integers(0, 3))}

    @staticmethod
    def apply(side, objs, args):
        return objs[0].clip(lower=args["lower"], upper=args["upper"])


@register("to_frame", kinds=("series",), weight=0.5, tags={"rowwise"})
class ToFrame(Op):
    @staticmethod
    def gen(draw, ins):
        x = ins[0][0]
        return {"name": draw(st().sampled_from([None, "tf"])) if x.name is not None else "tf"}

    @staticmethod
    def apply(side, objs, args):
        return objs[0].to_frame() if args["name"] is None else objs[0].to_frame(name=args["name"])


@register("reset_index", kinds=("frame", "series"), weight=1, tags={"rowwise"})
class ResetIndex(Op):
    @staticmethod
    def gen(draw, ins):
        x = ins[0][0]
        drop = draw(st().booleans())
        if not ins[0][1].indexed:
            drop = True  # an undefined index must not become data
        if not drop:
            newname = x.index.name if x.index.name is not None else "index"
            existing = list(x.columns) if kind_of(x) == "frame" else [x.name]
            if newname in existing:
                drop = True
            if kind_of(x) == "series" and x.name is None:
                drop = True
        return {"drop": drop}

    @staticmethod
    def apply(side, objs, args):
        return objs[0].reset_index(drop=args["drop"])

    @staticmethod
    def flags(ins, args, out):
        return replace(ins[0][1], indexed=False, rowset="")


@register("index_of", kinds=("frame", "series"), weight=0.3, tags={"rowwise"})
class IndexOf(Op):
    @staticmethod
    def apply(side, objs, args):
        return objs[0].index

    @staticmethod
    def gen(draw, ins):
        if not ins[0][1].indexed:
            return None
        return {}


@register("map_partitions", kinds=("frame",), weight=0.7, tags={"rowwise", "udf"})
class MapPartitions(Op):
    @staticmethod
    def gen(draw, ins):
        return {"f": draw(st().sampled_from(["add_one_numeric", "identity", "with_partition_info"]))}

    @staticmethod
    def apply(side, objs, args):
        f = getattr(udfs, args["f"])
        if side == "pandas":
            return f(objs[0])
        return objs[0].map_partitions(f)


@register("select_dtypes", kinds=("frame",), weight=0.3, tags={"rowwise", "proj"})
class SelectDtypes(Op):
    @staticmethod
    def gen(draw, ins):
        if not cols_of(ins[0][0], ("int", "float")):
            return None
        return {}

    @staticmethod
    def apply(side, objs, args):
        return objs[0].select_dtypes(include="number")


@register("accessor", kinds=("series",), weight=0.5, tags={"rowwise"})
class Accessor(Op):
    @staticmethod
    def gen(draw, ins):
        k = col_kind(ins[0][0].dtype)
        if k == "str":
            return {"acc": "str", "f": draw(st().sampled_from(["upper", "len"]))}
        if k == "dt":
            return {"acc": "dt", "f": draw(st().sampled_from(["day", "month"]))}
        return None

    @staticmethod
    def apply(side, objs, args):
        a = getattr(objs[0], args["acc"])
        r = getattr(a, args["f"])
        return r() if callable(r) else r


# ------------------------------------------------------------------ row selection


@register("filter", arity=2, kinds=("any", "series"), weight=3, tags={"filter", "aligned"})
class Filter(Op):
    @staticmethod
    def gen(draw, ins):
        (a, fa), (b, fb) = ins
        if kind_of(a) not in ("frame", "series") or fa.rowset != fb.rowset or col_kind(b.dtype) != "bool":
            return None
        return {}

    @staticmethod
    def apply(side, objs, args):
        return objs[0][objs[1]]

    @staticmethod
    def flags(ins, args, out):
        return replace(ins[0][1], rowset="")


def _pred_atom(draw, pdf):
    s = st()
    cands = cols_of(pdf, ("int", "float", "str", "bool"))
    if not cands:
        return None
    c = draw(s.sampled_from(cands))
    k = col_kind(pdf[c].dtype)
    if k in ("int", "float"):
        form = draw(s.integers(0, 4))
        if form <= 1:
            return {"col": c, "cmp": draw(s.sampled_from(CMP)), "val": draw(s.integers(-1, 3))}
        if form == 2:
            return {"col": c, "isin": draw(s.lists(s.integers(-1, 3), min_size=1, max_size=3))}
        if form == 3:
            return {"col": c, "f": draw(s.sampled_from(["isna", "notnull"]))}
        return {"col": c, "cmp": draw(s.sampled_from(["gt", "le"])), "red": draw(s.sampled_from(["mean", "min", "max"]))}
    if k == "str":
        form = draw(s.integers(0, 2))
        if form == 0:
            return {"col": c, "cmp": draw(s.sampled_from(["eq", "ne"])), "val": draw(s.sampled_from(["a", "b"]))}
        if form == 1:
            return {"col": c, "isin": draw(s.lists(s.sampled_from(["a", "b", "q"]), min_size=1, max_size=2))}
        return {"col": c, "f": draw(s.sampled_from(["isna", "notnull"]))}
    return {"col": c, "bool": True}


def _pred_or_of_ands(draw, pdf):
    """OR of 2-4 branches, each an AND of 1-2 atoms from a small shared pool: the
    shape the OR-factoring rewrite targets (conjuncts common to all / some / no branches)."""
    s = st()
    pool = [a for a in (_pred_atom(draw, pdf) for _ in range(draw(s.integers(2, 4)))) if a is not None]
    if not pool:
        return None
    nb = draw(s.integers(2, 4))
    branches = []
    for _ in range(nb):
        idx = draw(s.lists(s.integers(0, len(pool) - 1), min_size=1, max_size=2, unique=True))
        b = pool[idx[0]]
        for j in idx[1:]:
            b = {"and": [b, pool[j]]}
        branches.append(b)
    p = branches[0]
    for b in branches[1:]:
        p = {"or": [p, b]}
    return p


def _pred(draw, pdf, depth=0):
    s = st()
    if depth == 0 and draw(s.integers(0, 5)) == 0:
        return _pred_or_of_ands(draw, pdf)
    form = draw(s.integers(0, 5 if depth < 2 else 2))
    if form <= 2:
        return _pred_atom(draw, pdf)
    l = _pred(draw, pdf, depth + 1)
    if l is None:
        return None
    if form == 3:
        return {"not": l}
    r = _pred(draw, pdf, depth + 1)
    if r is None:
        return l
    return {"and" if form == 4 else "or": [l, r]}


def eval_pred(obj, p):
    if "not" in p:
        return ~eval_pred(obj, p["not"])
    if "and" in p:
        return eval_pred(obj, p["and"][0]) & eval_pred(obj, p["and"][1])
    if "or" in p:
        return eval_pred(obj, p["or"][0]) | eval_pred(obj, p["or"][1])
    c = obj[p["col"]] if p.get("col") != "<index>" else obj.index
    if "bool" in p:
        return c
    if "isin" in p:
        return c.isin(list(p["isin"]))
    if "f" in p:
        return getattr(c, p["f"])()
    if "red" in p:
        return BIN[p["cmp"]](c, getattr(c, p["red"])())
    if "col2" in p:
        return BIN[p["cmp"]](c, obj[p["col2"]])
    return BIN[p["cmp"]](c, p["val"])


@register("filter_pred", kinds=("frame",), weight=4, tags={"filter"})
class FilterPred(Op):
    @staticmethod
    def gen(draw, ins):
        p = _pred(draw, ins[0][0])
        if p is None:
            return None
        return {"pred": p}

    @staticmethod
    def apply(side, objs, args):
        return objs[0][eval_pred(objs[0], args["pred"])]

    @staticmethod
    def flags(ins, args, out):
        return replace(ins[0][1], rowset="")


@register("loc_slice", kinds=("frame", "series"), weight=0.6, tags={"loc"})
class LocSlice(Op):
    @staticmethod
    def gen(draw, ins):
        x, f = ins[0]
        if not f.indexed or not f.ordered or len(x) == 0:
            return None
        if isinstance(x.index, pd.MultiIndex) or not x.index.is_monotonic_increasing or x.index.hasnans:
            return None
        if x.index.dtype.kind not in "iuf":
            return None
        s = st()
        vals = sorted(set(x.index.tolist()))
        lo = draw(s.one_of(s.none(), s.sampled_from(vals)))
        hi = draw(s.one_of(s.none(), s.sampled_from(vals)))
        if lo is None and hi is None:
            return None
        out = {"lo": lo, "hi": hi}
        if kind_of(x) == "frame" and len(x.columns) and draw(s.integers(0, 2)) == 0:
            out["cols"] = draw(s.one_of(s.sampled_from(list(x.columns)), s.just(_subset(draw, x.columns, max_size=3))))
        return out

    @staticmethod
    def apply(side, objs, args):
        if "cols" in args:
            c = args["cols"]
            return objs[0].loc[args["lo"] : args["hi"], list(c) if isinstance(c, list) else c]
        return objs[0].loc[args["lo"] : args["hi"]]

    @staticmethod
    def flags(ins, args, out):
        return replace(ins[0][1], rowset="")


@register("loc_list", kinds=("frame", "series"), weight=0.5, tags={"loc"})
class LocList(Op):
    """x.loc[[labels]] with labels that exist; dask needs known divisions (documented KeyError otherwise),
    so without them the dask side selects the same rows with index.to_series().isin (Index.isin gives a dask array)."""

    @staticmethod
    def gen(draw, ins):
        x, f = ins[0]
        if not f.indexed or not f.ordered or len(x) == 0:
            return None
        if isinstance(x.index, pd.MultiIndex) or not x.index.is_monotonic_increasing or x.index.hasnans:
            return None
        if x.index.dtype.kind not in "iuf":
            return None
        s = st()
        vals = sorted(set(x.index.tolist()))
        # unique labels: the unknown-divisions emulation below (isin) cannot repeat rows
        labels = draw(s.lists(s.sampled_from(vals), min_size=1, max_size=6, unique=True))
        if draw(s.booleans()):
            labels = sorted(labels)
        return {"labels": labels}

    @staticmethod
    def apply(side, objs, args):
        x = objs[0]
        if side == "dask" and not x.known_divisions:
            return x[x.index.to_series().isin(sorted(set(args["labels"])))]
        return x.loc[args["labels"]]

    @staticmethod
    def flags(ins, args, out):
        f = ins[0][1]
        lab = args["labels"]
        asc = lab == sorted(set(lab))
        return replace(f, rowset="", ordered=f.ordered and asc)


@register("head", kinds=("frame", "series"), weight=1.5, tags={"headtail"})
class Head(Op):
    @staticmethod
    def gen(draw, ins):
        if not ins[0][1].ordered:
            return None
        s = st()
        return {"n": draw(s.integers(1, 6)), "npartitions": draw(s.sampled_from([-1, -1, 1, 2])), "how": draw(s.sampled_from(["head", "head", "tail"]))}

    @staticmethod
    def apply(side, objs, args):
        if side == "pandas":
            return getattr(objs[0], args["how"])(args["n"])
        if args["how"] == "tail":
            return objs[0].tail(args["n"], compute=False)
        return objs[0].head(args["n"], npartitions=args["npartitions"], compute=False)

    @staticmethod
    def flags(ins, args, out):
        f = ins[0][1]
        exact = args["how"] == "head" and args["npartitions"] == -1
        return replace(f, rowset="", pandas_ok=f.pandas_ok and exact, defined=f.defined and (exact or f.layout), layout=True)


@register("dropna", kinds=("frame", "series"), weight=0.8, tags={"filter"})
class DropNa(Op):
    @staticmethod
    def gen(draw, ins):
        x = ins[0][0]
        if kind_of(x) == "series":
            return {}
        s = st()
        if len(x.columns) == 0:
            return None
        if draw(s.booleans()):
            return {"subset": _subset(draw, x.columns, max_size=2)}
        return {"how": draw(s.sampled_from(["any", "all"]))}

    @staticmethod
    def apply(side, objs, args):
        return objs[0].dropna(**{k: (list(v) if isinstance(v, list) else v) for k, v in args.items()})

    @staticmethod
    def flags(ins, args, out):
        return replace(ins[0][1], rowset="")


@register("drop_duplicates", kinds=("frame", "series"), weight=0.8, tags={"dedup"})
class DropDuplicates(Op):
    @staticmethod
    def gen(draw, ins):
        s = st()
        return {"split_out": draw(s.sampled_from([1, 1, 2]))}

    @staticmethod
    def apply(side, objs, args):
        if side == "pandas":
            return objs[0].drop_duplicates()
        return objs[0].drop_duplicates(split_out=args["split_out"])

    @staticmethod
    def flags(ins, args, out):
        return replace(ins[0][1], rowset="", ordered=False, indexed=False, layout=False)


@register("nlargest", kinds=("frame",), weight=0.8, tags={"topk"})
class NLargest(Op):
    @staticmethod
    def gen(draw, ins):
        x = ins[0][0]
        cands = [c for c in cols_of(x, ("int", "float")) if x[c].is_unique and not x[c].isna().any()]
        if not cands:
            return None
        s = st()
        return {"how": draw(s.sampled_from(["nlargest", "nsmallest"])), "n": draw(s.integers(1, 5)), "col": draw(s.sampled_from(cands))}

    @staticmethod
    def apply(side, objs, args):
        return getattr(objs[0], args["how"])(args["n"], args["col"])

    @staticmethod
    def flags(ins, args, out):
        return replace(ins[0][1], rowset="", ordered=True, layout=True)


def _no_ties(pdf, by):
    return not pdf.duplicated(subset=by).any()


@register("sort_values", kinds=("frame",), weight=1.5, tags={"sort"})
class SortValues(Op):
    @staticmethod
    def gen(draw, ins):
        x = ins[0][0]
        cands = cols_of(x, ("int", "float", "str"))
        if not cands:
            return None
        s = st()
        by = _subset(draw, cands, max_size=2)
        return {"by": by, "ascending": draw(s.booleans()), "na_position": draw(s.sampled_from(["last", "first"]))}

    @staticmethod
    def apply(side, objs, args):
        return objs[0].sort_values(by=list(args["by"]), ascending=args["ascending"], na_position=args["na_position"])

    @staticmethod
    def flags(ins, args, out):
        x, f = ins[0]
        return replace(f, rowset="", ordered=_no_ties(x, list(args["by"])), layout=False)


@register("set_index", kinds=("frame",), weight=1.2, tags={"sort", "set_index"})
class SetIndex(Op):
    @staticmethod
    def gen(draw, ins):
        x = ins[0][0]
        if len(x) == 0:
            return None
        cands = [c for c in cols_of(x, ("int", "float", "str")) if not x[c].isna().any()]
        if not cands or len(x.columns) < 2:
            return None
        s = st()
        col = draw(s.sampled_from(cands))
        out = {"col": col, "drop": draw(s.sampled_from([True, True, False]))}
        # sorted=True is the user's assertion that the column is already sorted: only offered when it is
        # (pandas_ok: after a partition selection the pandas value no longer shows the dask rows, e.g. repeated partitions)
        if ins[0][1].ordered and ins[0][1].pandas_ok and x[col].is_monotonic_increasing and draw(s.booleans()):
            out["sorted"] = True
        return out

    @staticmethod
    def apply(side, objs, args):
        if side == "pandas":
            return objs[0].set_index(args["col"], drop=args["drop"]).sort_index(kind="stable")
        if args.get("sorted"):
            return objs[0].set_index(args["col"], drop=args["drop"], sorted=True)
        return objs[0].set_index(args["col"], drop=args["drop"])

    @staticmethod
    def flags(ins, args, out):
        x, f = ins[0]
        return replace(f, rowset="", indexed=True, ordered=bool(x[args["col"]].is_unique) or bool(args.get("sorted")), layout=False)


@register("shuffle", kinds=("frame",), weight=0.8, tags={"shuffle"})
class Shuffle(Op):
    @staticmethod
    def gen(draw, ins):
        x = ins[0][0]
        cands = cols_of(x, ("int", "float", "str"))
        if not cands:
            return None
        s = st()
        out = {"on": draw(s.sampled_from(cands)), "npartitions": draw(s.sampled_from([None, 1, 2, 3, 4]))}
        if draw(s.integers(0, 2)) == 0:
            # the staged task shuffle (more partitions than max_branch on both sides)
            out.update(shuffle_method="tasks", max_branch=2, ignore_index=draw(s.booleans()))
        return out

    @staticmethod
    def apply(side, objs, args):
        if side == "pandas":
            return objs[0].reset_index(drop=True) if args.get("ignore_index") else objs[0]
        kw = {k: args[k] for k in ("shuffle_method", "max_branch", "ignore_index") if args.get(k) is not None}
        return objs[0].shuffle(on=args["on"], npartitions=args["npartitions"], **kw)

    @staticmethod
    def flags(ins, args, out):
        return replace(ins[0][1], rowset="", ordered=False, layout=False, indexed=ins[0][1].indexed and not args.get("ignore_index"))


@register("repartition", kinds=("frame", "series"), weight=0.6, tags={"repartition"})
class Repartition(Op):
    @staticmethod
    def gen(draw, ins):
        return {"npartitions": draw(st().integers(1, 4))}

    @staticmethod
    def apply(side, objs, args):
        if side == "pandas":
            return objs[0]
        return objs[0].repartition(npartitions=args["npartitions"])

    @staticmethod
    def flags(ins, args, out):
        # with unknown divisions the new boundaries are positions in the row sequence: they move when the optimizer pushes a
        # later filter below the repartition, so the partition layout is not defined by the query
        return replace(ins[0][1], rowset="", layout=False)


@register("partitions", kinds=("frame", "series"), weight=0.5, tags={"partitions"})
class Partitions(Op):
    @staticmethod
    def gen(draw, ins):
        s = st()
        if not ins[0][1].layout:
            return None
        return {"sel": draw(s.lists(s.integers(0, 5), min_size=1, max_size=3))}

    @staticmethod
    def apply(side, objs, args):
        if side == "pandas":
            return objs[0]
        n = objs[0].npartitions
        sel = [i % n for i in args["sel"]]
        return objs[0].partitions[sel]

    @staticmethod
    def flags(ins, args, out):
        return replace(ins[0][1], rowset="", pandas_ok=False)


# ------------------------------------------------------------------ reductions

REDS_NUM = ["sum", "min", "max", "mean", "count", "var", "std", "nunique", "size"]


@register("reduce", kinds=("series", "frame"), weight=2, tags={"reduction"})
class Reduce(Op):
    @staticmethod
    def gen(draw, ins):
        x = ins[0][0]
        s = st()
        if kind_of(x) == "series":
            k = col_kind(x.dtype)
            if k in ("int", "float"):
                how = draw(s.sampled_from(REDS_NUM))
            elif k == "bool":
                how = draw(s.sampled_from(["sum", "any", "all", "count"]))
            else:
                how = draw(s.sampled_from(["count", "nunique", "size"]))
            out = {"how": how, "split_every": draw(s.sampled_from([None, None, 2]))}
            if how in ("var", "std") and draw(s.booleans()):
                out["ddof"] = draw(s.sampled_from([0, 2]))
            return out
        if not (len(x.columns) and all(col_kind(d) in ("int", "float") for d in x.dtypes)):
            return None
        how = draw(s.sampled_from(["sum", "min", "max", "mean", "count", "var", "std"]))
        out = {"how": how, "split_every": draw(s.sampled_from([None, None, 2]))}
        if how in ("var", "std") and draw(s.booleans()):
            out["ddof"] = draw(s.sampled_from([0, 2]))
        return out

    @staticmethod
    def apply(side, objs, args):
        x = objs[0]
        how = args["how"]
        if how == "size":
            return x.size
        kw = {}
        if "ddof" in args:
            kw["ddof"] = args["ddof"]
        if side == "pandas" or how in ("nunique",):
            return getattr(x, how)(**kw)
        if args.get("split_every"):
            kw["split_every"] = args["split_every"]
        return getattr(x, how)(**kw)

    @staticmethod
    def flags(ins, args, out):
        return replace(ins[0][1], rowset="", ordered=True, indexed=True, layout=True)


@register("value_counts", kinds=("series",), weight=0.7, tags={"reduction"})
class ValueCounts(Op):
    @staticmethod
    def gen(draw, ins):
        if col_kind(ins[0][0].dtype) not in ("int", "float", "str"):
            return None
        return {"split_out": draw(st().sampled_from([1, 1, 2]))}

    @staticmethod
    def apply(side, objs, args):
        if side == "pandas":
            return objs[0].value_counts()
        return objs[0].value_counts(split_out=args["split_out"])

    @staticmethod
    def flags(ins, args, out):
        return replace(ins[0][1], rowset="", ordered=False, indexed=True, layout=False)


@register("unique", kinds=("series",), weight=0.5, tags={"reduction", "dedup"})
class Unique(Op):
    @staticmethod
    def gen(draw, ins):
        if col_kind(ins[0][0].dtype) not in ("int", "float", "str"):
            return None
        return {}

    @staticmethod
    def apply(side, objs, args):
        if side == "pandas":
            x = objs[0]
            return pd.Series(x.unique(), name=x.name, dtype=x.dtype)
        return objs[0].unique()

    @staticmethod
    def flags(ins, args, out):
        return replace(ins[0][1], rowset="", ordered=False, indexed=False, layout=False)


@register("scalar_arith", kinds=("scalar",), weight=0.8, tags={"scalar"})
class ScalarArith(Op):
    @staticmethod
    def gen(draw, ins):
        x = ins[0][0]
        if isinstance(x, (bool, np.bool_)) or not isinstance(x, (int, float, np.integer, np.floating)):
            return None
        s = st()
        return {"op": draw(s.sampled_from(ARITH)), "c": draw(s.integers(1, 3)), "r": draw(s.booleans())}

    @staticmethod
    def apply(side, objs, args):
        f = BIN[args["op"]]
        return f(args["c"], objs[0]) if args["r"] else f(objs[0], args["c"])


@register("scalar_binop", arity=2, kinds=("scalar", "scalar"), weight=0.8, tags={"scalar"})
class ScalarBinop(Op):
    @staticmethod
    def gen(draw, ins):
        for x, _ in ins:
            if isinstance(x, (bool, np.bool_)) or not isinstance(x, (int, float, np.integer, np.floating)):
                return None
        return {"op": draw(st().sampled_from(ARITH))}

    @staticmethod
    def apply(side, objs, args):
        return BIN[args["op"]](objs[0], objs[1])


@register("bcast_scalar", arity=2, kinds=("series", "scalar"), weight=1.5, tags={"rowwise", "scalar"})
class BcastScalar(Op):
    @staticmethod
    def gen(draw, ins):
        (a, fa), (b, fb) = ins
        if col_kind(a.dtype) not in ("int", "float"):
            return None
        if isinstance(b, (bool, np.bool_)) or not isinstance(b, (int, float, np.integer, np.floating)):
            return None
        return {"op": draw(st().sampled_from(ARITH + ["gt", "le"])), "r": draw(st().booleans())}

    @staticmethod
    def apply(side, objs, args):
        f = BIN[args["op"]]
        return f(objs[1], objs[0]) if args["r"] and args["op"] in ARITH else f(objs[0], objs[1])


# ------------------------------------------------------------------ groupby

GB_AGGS = ["sum", "min", "max", "count", "mean", "size", "first", "last", "var", "std", "nunique"]


@register("groupby_agg", kinds=("frame",), weight=3, tags={"groupby"})
class GroupbyAgg(Op):
    @staticmethod
    def gen(draw, ins):
        x, f = ins[0]
        keys = [c for c in cols_of(x, ("int", "str")) if c != "rid"]
        if not keys:
            return None
        s = st()
        by = _subset(draw, keys, max_size=2)
        vals = [c for c in cols_of(x, ("int", "float")) if c not in by]
        if not vals:
            return None
        aggs = [a for a in GB_AGGS if f.ordered or a not in ("first", "last")]
        form = draw(s.integers(0, 2))
        how = draw(s.sampled_from(aggs))
        args = {"by": by, "how": how, "split_out": draw(s.sampled_from([1, 1, 2])), "sort": draw(s.sampled_from([None, None, True, False]))}
        if form == 0:
            args["col"] = draw(s.sampled_from(vals))
        elif form == 1:
            args["cols"] = _subset(draw, vals, max_size=2)
        else:
            if how in ("size",):
                args["how"] = "sum"
            args["agg"] = {c: draw(s.sampled_from(["sum", "min", "max", "count", "mean"])) for c in _subset(draw, vals, max_size=2)}
        if draw(s.integers(0, 5)) == 0:
            args["split_every"] = 2
        # known finding D44 (first/last through the shuffle-based reduction lose the row order under the disk
        # shuffle): excluded by construction here, the C02 catalogue keeps canary templates for it
        if (args["how"] in ("first", "last") or any(v in ("first", "last") for v in (args.get("agg") or {}).values())) and args["split_out"] != 1:
            args["split_out"] = 1
        return args

    @staticmethod
    def apply(side, objs, args):
        x = objs[0]
        by = list(args["by"])
        by = by[0] if len(by) == 1 else by
        if side == "pandas":
            g = x.groupby(by)
        else:
            kw = {}
            if args.get("sort") is not None:
                kw["sort"] = args["sort"]
            g = x.groupby(by, **kw)
        if "col" in args:
            g = g[args["col"]]
        elif "cols" in args:
            g = g[list(args["cols"])]
        dkw = {}
        if side == "dask":
            dkw["split_out"] = args["split_out"]
            if args.get("split_every"):
                dkw["split_every"] = args["split_every"]
        if "agg" in args:
            return g.agg(dict(args["agg"]), **dkw)
        return getattr(g, args["how"])(**dkw)

    @staticmethod
    def flags(ins, args, out):
        return replace(ins[0][1], rowset="", indexed=True, ordered=False, layout=False)


# ------------------------------------------------------------------ joins / concat


@register("merge", arity=2, kinds=("frame", "frame"), weight=3, tags={"join"})
class Merge(Op):
    @staticmethod
    def gen(draw, ins):
        (a, fa), (b, fb) = ins
        common = [c for c in a.columns if c in b.columns and col_kind(a[c].dtype) == col_kind(b[c].dtype) and col_kind(a[c].dtype) in ("int", "str") and c != "rid"]
        if not common:
            return None
        s = st()
        on = _subset(draw, common, max_size=2)
        return {
            "on": on,
            "how": draw(s.sampled_from(["inner", "left", "right", "outer", "inner", "left"])),
            "suffixes": draw(s.sampled_from([None, None, ["_l", "_r"], ["", "_r"], ["_l", ""]])),
            "broadcast": draw(s.sampled_from([None, None, True, False])),
            "shuffle_method": draw(s.sampled_from([None, None, "tasks"])),
        }

    @staticmethod
    def apply(side, objs, args):
        kw = {"on": list(args["on"]), "how": args["how"]}
        if args.get("suffixes"):
            kw["suffixes"] = tuple(args["suffixes"])
        if side == "dask":
            if args.get("broadcast") is not None:
                kw["broadcast"] = args["broadcast"]
            if args.get("shuffle_method"):
                kw["shuffle_method"] = args["shuffle_method"]
        return objs[0].merge(objs[1], **kw)

    @staticmethod
    def flags(ins, args, out):
        fa, fb = ins[0][1], ins[1][1]
        return Flags(ordered=False, indexed=False, layout=False, rowset="", pandas_ok=fa.pandas_ok and fb.pandas_ok, srcs=tuple(sorted(set(fa.srcs) | set(fb.srcs))))


@register("merge_index", arity=2, kinds=("frame", "frame"), weight=1, tags={"join"})
class MergeIndex(Op):
    @staticmethod
    def gen(draw, ins):
        (a, fa), (b, fb) = ins
        if not (fa.indexed and fb.indexed):
            return None
        if isinstance(a.index, pd.MultiIndex) or isinstance(b.index, pd.MultiIndex):
            return None
        if isinstance(a.index, pd.MultiIndex) or isinstance(b.index, pd.MultiIndex) or a.index.dtype != b.index.dtype or a.index.hasnans or b.index.hasnans:
            return None
        if a.index.name != b.index.name:
            return None
        s = st()
        return {"how": draw(s.sampled_from(["inner", "left", "outer", "right"]))}

    @staticmethod
    def apply(side, objs, args):
        return objs[0].merge(objs[1], left_index=True, right_index=True, how=args["how"], suffixes=("_a", "_b"))

    @staticmethod
    def flags(ins, args, out):
        fa, fb = ins[0][1], ins[1][1]
        return Flags(ordered=False, indexed=True, layout=False, rowset="", pandas_ok=fa.pandas_ok and fb.pandas_ok, srcs=tuple(sorted(set(fa.srcs) | set(fb.srcs))))


@register("concat0", arity=2, kinds=("frame", "frame"), weight=1, tags={"concat"})
class Concat0(Op):
    @staticmethod
    def gen(draw, ins):
        (a, fa), (b, fb) = ins
        if list(a.columns) != list(b.columns) or list(map(str, a.dtypes)) != list(map(str, b.dtypes)):
            return None
        if a.index.dtype != b.index.dtype or a.index.name != b.index.name:
            return None
        return {}

    @staticmethod
    def apply(side, objs, args):
        if side == "pandas":
            return pd.concat(list(objs))
        import dask_expr as dx

        return dx.concat(list(objs))

    @staticmethod
    def flags(ins, args, out):
        fa, fb = ins[0][1], ins[1][1]
        return Flags(ordered=fa.ordered and fb.ordered, indexed=fa.indexed and fb.indexed, layout=fa.layout and fb.layout, rowset="", pandas_ok=fa.pandas_ok and fb.pandas_ok, srcs=tuple(sorted(set(fa.srcs) | set(fb.srcs))))


@register("concat1", arity=2, kinds=("frame", "any"), weight=0.7, tags={"concat", "aligned"})
class Concat1(Op):
    @staticmethod
    def gen(draw, ins):
        (a, fa), (b, fb) = ins
        if fa.rowset != fb.rowset or kind_of(b) not in ("frame", "series"):
            return None
        bcols = list(b.columns) if kind_of(b) == "frame" else [b.name]
        if any(c in a.columns for c in bcols) or None in bcols:
            return None
        return {}

    @staticmethod
    def apply(side, objs, args):
        if side == "pandas":
            return pd.concat(list(objs), axis=1)
        import dask_expr as dx

        return dx.concat(list(objs), axis=1)


# ------------------------------------------------------------------ windows


@register("cum", kinds=("series",), weight=1, tags={"window"})
class Cum(Op):
    @staticmethod
    def gen(draw, ins):
        x, f = ins[0]
        if not f.ordered or col_kind(x.dtype) not in ("int", "float"):
            return None
        return {"f": draw(st().sampled_from(["cumsum", "cumsum", "cummax", "cummin", "cumprod"]))}

    @staticmethod
    def apply(side, objs, args):
        return getattr(objs[0], args["f"])()


@register("shift", kinds=("series", "frame"), weight=0.8, tags={"window"})
class Shift(Op):
    @staticmethod
    def gen(draw, ins):
        x, f = ins[0]
        if not f.ordered:
            return None
        s = st()
        how = draw(s.sampled_from(["shift", "diff", "ffill", "bfill"]))
        if how == "diff":
            if kind_of(x) == "series":
                if col_kind(x.dtype) not in ("int", "float"):
                    return None
            elif not (len(x.columns) and all(col_kind(d) in ("int", "float") for d in x.dtypes)):
                return None
        if how in ("shift", "diff"):
            return {"f": how, "periods": draw(s.sampled_from([1, -1, 2]))}
        return {"f": how}

    @staticmethod
    def apply(side, objs, args):
        if "freq" in args:  # only in systematic cases (C06): shift of a datetime index by an offset
            return objs[0].shift(args["periods"], freq=parse_freq(args["freq"]))
        if "periods" in args:
            return getattr(objs[0], args["f"])(args["periods"])
        return getattr(objs[0], args["f"])()


def parse_freq(spec):
    """'1D' / 'MS' (alias), 'td:36h' (Timedelta), 'do:months=1,day=5' (plain pd.DateOffset)"""
    import pandas as pd

    if spec.startswith("td:"):
        return pd.Timedelta(spec[3:])
    if spec.startswith("do:"):
        return pd.DateOffset(**{k: int(v) for k, v in (kv.split("=") for kv in spec[3:].split(","))})
    return spec


def op_names(tags=None, exclude=()):
    return [n for n, o in OPS.items() if (tags is None or o.tags & set(tags)) and n not in exclude]


# ------------------------------------------------------------------ materialisation boundaries (C17, C09)


def apply_cut(obj, how):
    """dask-side: cut the query at ``obj`` and re-import it."""
    import dask_expr as dx

    if how == "persist":
        return obj.persist(scheduler="sync")
    if how == "delayed":
        parts = obj.to_delayed()
        # verify_meta=False: the declared dtypes may legitimately differ from a partition's by pandas'
        # int/bool promotion (C07); from_delayed's check is about *user supplied* meta
        if len(obj.divisions) != len(parts) + 1:
            # the optimized plan behind to_delayed() has another partition count than the collection reports (a C06/C11 matter,
            # e.g. a sort whose output count depends on the data): re-import without divisions
            return dx.from_delayed(parts, meta=obj._meta, verify_meta=False)
        return dx.from_delayed(parts, meta=obj._meta, divisions=obj.divisions, verify_meta=False)
    if how == "delayed_nodiv":
        parts = obj.to_delayed()
        return dx.from_delayed(parts, meta=obj._meta, verify_meta=False)
    if how == "legacy":
        return dx.from_legacy_dataframe(obj.to_legacy_dataframe())
    if how == "legacy_noopt":
        return dx.from_legacy_dataframe(obj.to_legacy_dataframe(optimize=False))
    raise ValueError(how)


@register("cut", kinds=("frame", "series"), weight=0.0, tags={"cut"})
class Cut(Op):
    @staticmethod
    def gen(draw, ins):
        return {"how": draw(st().sampled_from(["persist", "delayed", "legacy", "delayed_nodiv", "legacy_noopt"]))}

    @staticmethod
    def apply(side, objs, args):
        if side == "pandas":
            return objs[0]
        return apply_cut(objs[0], args["how"])

    @staticmethod
    def flags(ins, args, out):
        return replace(ins[0][1], rowset="")


# ------------------------------------------------------------------ applicability (used by the minimiser)


def precondition(opname, ins, args):
    """The generator's applicability rules that are NOT implied by the pandas
    side running: a minimised program must still satisfy them, otherwise the
    minimiser could turn a genuine failure into an ill-posed query."""
    fl = [f for _, f in ins]
    vals = [v for v, _ in ins]
    op = OPS[opname]
    if "aligned" in op.tags and len(ins) > 1 and any(f.rowset != fl[0].rowset for f in fl[1:]):
        return False
    if hasattr(op, "pre") and not op.pre(ins, args):
        return False
    if opname in ("head", "cum", "shift") and not fl[0].ordered:
        return False
    if opname == "groupby_agg" and args.get("how") in ("first", "last") and not fl[0].ordered:
        return False
    if opname == "groupby_agg" and "agg" in args and any(v in ("first", "last") for v in args["agg"].values()) and not fl[0].ordered:
        return False
    if opname == "reset_index" and not fl[0].indexed and not args.get("drop"):
        return False
    if opname == "index_of" and not fl[0].indexed:
        return False
    if opname == "partitions" and not fl[0].layout:
        return False
    if opname == "loc_slice":
        x = vals[0]
        if not (fl[0].indexed and fl[0].ordered) or len(x) == 0 or isinstance(x.index, pd.MultiIndex) or not x.index.is_monotonic_increasing or x.index.hasnans or x.index.dtype.kind not in "iuf":
            return False
    if opname == "loc_list":
        x = vals[0]
        if not (fl[0].indexed and fl[0].ordered) or len(x) == 0 or isinstance(x.index, pd.MultiIndex) or not x.index.is_monotonic_increasing or x.index.hasnans or x.index.dtype.kind not in "iuf":
            return False
        if isinstance(x.index, pd.MultiIndex) or not set(args["labels"]) <= set(x.index.tolist()) or len(set(args["labels"])) != len(args["labels"]):
            return False
    if opname == "nlargest":
        x = vals[0]
        c = args["col"]
        if c not in x.columns or not x[c].is_unique or x[c].isna().any():
            return False
    if opname == "set_index":
        x = vals[0]
        if len(x) == 0 or x[args["col"]].isna().any():
            return False
        if args.get("sorted") and not (fl[0].ordered and fl[0].pandas_ok and x[args["col"]].is_monotonic_increasing):
            return False
    if opname == "merge_index":
        a, b = vals
        if not (fl[0].indexed and fl[1].indexed) or isinstance(a.index, pd.MultiIndex) or isinstance(b.index, pd.MultiIndex) or a.index.dtype != b.index.dtype or a.index.hasnans or b.index.hasnans or a.index.name != b.index.name:
            return False
    if opname == "concat0":
        a, b = vals
        if list(a.columns) != list(b.columns) or list(map(str, a.dtypes)) != list(map(str, b.dtypes)) or a.index.dtype != b.index.dtype or a.index.name != b.index.name:
            return False
    if opname == "merge":
        a, b = vals
        for c in args["on"]:
            if c not in a.columns or c not in b.columns or col_kind(a[c].dtype) != col_kind(b[c].dtype):
                return False
    return True


@register("rename_series", kinds=("series", "index"), weight=0.8, tags={"rowwise"})
class RenameSeries(Op):
    @staticmethod
    def gen(draw, ins):
        return {"name": draw(st().sampled_from(["renamed", "zz", "x"]))}

    @staticmethod
    def apply(side, objs, args):
        return objs[0].rename(args["name"])


# ------------------------------------------------------------------ more operator families (C02 catalogue; weight 0 elsewhere)


@register("groupby_window", kinds=("frame",), weight=0.0, tags={"groupby", "window"})
class GroupbyWindow(Op):
    @staticmethod
    def gen(draw, ins):
        x, f = ins[0]
        keys = [c for c in cols_of(x, ("int", "str")) if c != "rid" and not x[c].isna().any()]
        vals = cols_of(x, ("int", "float"))
        if not keys or not f.ordered:
            return None
        s = st()
        by = draw(s.sampled_from(keys))
        vals = [c for c in vals if c != by]
        if not vals:
            return None
        return {"by": by, "col": draw(s.sampled_from(vals)), "how": draw(s.sampled_from(["cumsum", "cumcount", "cumprod", "shift", "ffill", "bfill", "transform_sum", "apply_demean"]))}

    @staticmethod
    def apply(side, objs, args):
        g = objs[0].groupby(args["by"])[args["col"]]
        how = args["how"]
        if how == "transform_sum":
            return g.transform("sum")
        if how == "apply_demean":
            if side == "pandas":
                return g.transform(udfs.group_demean)
            return g.transform(udfs.group_demean)
        if how == "shift":
            return g.shift(1)
        return getattr(g, how)()

    @staticmethod
    def flags(ins, args, out):
        # row-aligned with the input through the index labels; the row order is what the shuffle leaves
        return replace(ins[0][1], rowset="", ordered=False, layout=False)


@register("rolling", kinds=("series", "frame"), weight=0.0, tags={"window"})
class Rolling(Op):
    @staticmethod
    def gen(draw, ins):
        x, f = ins[0]
        if not f.ordered:
            return None
        if kind_of(x) == "series":
            if col_kind(x.dtype) not in ("int", "float"):
                return None
        elif not (len(x.columns) and all(col_kind(d) in ("int", "float") for d in x.dtypes)):
            return None
        s = st()
        w = draw(s.integers(1, 4))
        return {"window": w, "min_periods": draw(s.sampled_from([None, 1, w])), "center": draw(s.booleans()), "how": draw(s.sampled_from(["sum", "mean", "max", "count"]))}

    @staticmethod
    def apply(side, objs, args):
        r = objs[0].rolling(args["window"], min_periods=args["min_periods"], center=args["center"])
        return getattr(r, args["how"])()


@register("cum_frame", kinds=("frame",), weight=0.0, tags={"window"})
class CumFrame(Op):
    @staticmethod
    def gen(draw, ins):
        x, f = ins[0]
        if not f.ordered or not (len(x.columns) and all(col_kind(d) in ("int", "float") for d in x.dtypes)):
            return None
        return {"f": draw(st().sampled_from(["cumsum", "cummax", "cummin", "cumprod"]))}

    @staticmethod
    def apply(side, objs, args):
        return getattr(objs[0], args["f"])()


@register("idx_extreme", kinds=("series",), weight=0.0, tags={"reduction"})
class IdxExtreme(Op):
    @staticmethod
    def gen(draw, ins):
        x, f = ins[0]
        if not f.indexed or col_kind(x.dtype) not in ("int", "float") or len(x) == 0:
            return None
        nn = x.dropna()
        if len(nn) == 0 or not nn.is_unique or x.index.has_duplicates:
            return None
        return {"how": draw(st().sampled_from(["idxmax", "idxmin"]))}

    @staticmethod
    def apply(side, objs, args):
        return getattr(objs[0], args["how"])()

    @staticmethod
    def flags(ins, args, out):
        return replace(ins[0][1], rowset="", ordered=True, indexed=True, layout=True)


@register("binop_misaligned", arity=2, kinds=("series", "series"), weight=0.0, tags={"rowwise", "misaligned"})
class BinopMisaligned(Op):
    """binary op between series from DIFFERENT sources that have to be aligned on the index"""

    @staticmethod
    def gen(draw, ins):
        (a, fa), (b, fb) = ins
        if fa.rowset == fb.rowset or not (fa.indexed and fb.indexed):
            return None
        if col_kind(a.dtype) not in ("int", "float") or col_kind(b.dtype) not in ("int", "float"):
            return None
        for x in (a, b):
            if isinstance(x.index, pd.MultiIndex) or x.index.has_duplicates or x.index.hasnans or not x.index.is_monotonic_increasing:
                return None
        if a.index.dtype != b.index.dtype:
            return None
        return {"op": draw(st().sampled_from(ARITH + ["gt"]))}

    @staticmethod
    def apply(side, objs, args):
        return BIN[args["op"]](objs[0], objs[1])

    @staticmethod
    def flags(ins, args, out):
        fa, fb = ins[0][1], ins[1][1]
        # with unknown divisions the operands are aligned by a shuffle on the index: the row order is unspecified then
        # (the labels are unique by the precondition, so the unordered comparison loses nothing)
        return Flags(ordered=False, indexed=True, layout=False, rowset="", pandas_ok=fa.pandas_ok and fb.pandas_ok, srcs=tuple(sorted(set(fa.srcs) | set(fb.srcs))))


# ------------------------------------------------------------------ second batch of operators (session 2)


@register("replace", kinds=("series", "frame"), weight=0.5, tags={"rowwise"})
class Replace(Op):
    @staticmethod
    def gen(draw, ins):
        x = ins[0][0]
        s = st()
        if kind_of(x) == "series":
            k = col_kind(x.dtype)
            if k == "int":
                return {"to_replace": draw(s.integers(0, 3)), "value": draw(s.integers(5, 7))}
            if k == "str":
                return {"to_replace": draw(s.sampled_from(["a", "b"])), "value": "zz"}
            return None
        ints = cols_of(x, ("int",))
        if not ints:
            return None
        return {"to_replace": {draw(s.sampled_from(ints)): draw(s.integers(0, 3))}, "value": draw(s.integers(5, 7))}

    @staticmethod
    def apply(side, objs, args):
        return objs[0].replace(args["to_replace"], args["value"])


@register("between", kinds=("series",), weight=0.5, tags={"rowwise"})
class Between(Op):
    @staticmethod
    def gen(draw, ins):
        if col_kind(ins[0][0].dtype) not in ("int", "float"):
            return None
        s = st()
        lo = draw(s.integers(-2, 2))
        return {"left": lo, "right": lo + draw(s.integers(0, 3)), "inclusive": draw(s.sampled_from(["both", "neither", "left"]))}

    @staticmethod
    def apply(side, objs, args):
        return objs[0].between(args["left"], args["right"], inclusive=args["inclusive"])


@register("map_dict", kinds=("series",), weight=0.4, tags={"rowwise"})
class MapDict(Op):
    @staticmethod
    def gen(draw, ins):
        if col_kind(ins[0][0].dtype) != "int":
            return None
        return {"mapping": {"0": 10, "1": 11, "2": draw(st().integers(12, 14))}}

    @staticmethod
    def apply(side, objs, args):
        m = {int(k): v for k, v in args["mapping"].items()}
        if side == "pandas":
            return objs[0].map(m)
        return objs[0].map(m, meta=(objs[0].name, "float64"))


@register("combine_first", arity=2, kinds=("frame", "frame"), weight=0.4, tags={"rowwise", "aligned"})
class CombineFirst(Op):
    @staticmethod
    def gen(draw, ins):
        (a, fa), (b, fb) = ins
        if fa.rowset != fb.rowset or not fa.indexed or a.index.has_duplicates:
            return None
        return {}

    @staticmethod
    def apply(side, objs, args):
        return objs[0].combine_first(objs[1])


@register("merge_lr", arity=2, kinds=("frame", "frame"), weight=1.0, tags={"join"})
class MergeLR(Op):
    """left_on / right_on with differently named keys, optional indicator"""

    @staticmethod
    def gen(draw, ins):
        (a, fa), (b, fb) = ins
        s = st()
        la = [c for c in cols_of(a, ("int",)) if c != "rid"]
        lb = [c for c in cols_of(b, ("int",)) if c != "rid"]
        if not la or not lb:
            return None
        return {"left_on": draw(s.sampled_from(la)), "right_on": draw(s.sampled_from(lb)), "how": draw(s.sampled_from(["inner", "left", "right", "outer"])), "indicator": draw(s.sampled_from([False, True, "side"])),
                "broadcast": draw(s.sampled_from([None, None, True, False])), "shuffle_method": draw(s.sampled_from([None, "tasks"]))}

    @staticmethod
    def apply(side, objs, args):
        kw = {}
        if side == "dask":
            kw = {"broadcast": args.get("broadcast"), "shuffle_method": args.get("shuffle_method")}
        return objs[0].merge(objs[1], left_on=args["left_on"], right_on=args["right_on"], how=args["how"], indicator=args["indicator"], suffixes=("_p", "_q"), **kw)

    @staticmethod
    def flags(ins, args, out):
        fa, fb = ins[0][1], ins[1][1]
        return Flags(ordered=False, indexed=False, layout=False, rowset="", pandas_ok=fa.pandas_ok and fb.pandas_ok, srcs=tuple(sorted(set(fa.srcs) | set(fb.srcs))))


@register("merge_leftsemi", arity=2, kinds=("frame", "frame"), weight=0.6, tags={"join"})
class MergeLeftSemi(Op):
    @staticmethod
    def gen(draw, ins):
        (a, fa), (b, fb) = ins
        common = [c for c in a.columns if c in b.columns and col_kind(a[c].dtype) == col_kind(b[c].dtype) and col_kind(a[c].dtype) in ("int", "str") and c != "rid"]
        if not common:
            return None
        return {"on": _subset(draw, common, max_size=2)}

    @staticmethod
    def apply(side, objs, args):
        on = list(args["on"])
        if side == "pandas":
            keys = objs[1][on].drop_duplicates()
            return objs[0].merge(keys, on=on, how="inner")[list(objs[0].columns)]
        return objs[0].merge(objs[1], on=on, how="leftsemi")

    @staticmethod
    def flags(ins, args, out):
        fa, fb = ins[0][1], ins[1][1]
        return Flags(ordered=False, indexed=False, layout=False, rowset="", pandas_ok=fa.pandas_ok and fb.pandas_ok, srcs=tuple(sorted(set(fa.srcs) | set(fb.srcs))))


@register("join_list", arity=3, kinds=("frame", "frame", "frame"), weight=0.4, tags={"join"})
class JoinList(Op):
    """df.join([a, b]) on the index (JoinRecursive)"""

    @staticmethod
    def gen(draw, ins):
        vals = [v for v, _ in ins]
        fls = [f for _, f in ins]
        if not all(f.indexed for f in fls):
            return None
        idx0 = vals[0].index
        seen = set()
        for v in vals:
            if isinstance(v.index, pd.MultiIndex) or v.index.dtype != idx0.dtype or v.index.has_duplicates or v.index.hasnans or v.index.name != idx0.name:
                return None
            if seen & set(v.columns):
                return None
            seen |= set(v.columns)
        return {"how": draw(st().sampled_from(["left", "outer", "inner"]))}

    @staticmethod
    def apply(side, objs, args):
        return objs[0].join([objs[1], objs[2]], how=args["how"])

    @staticmethod
    def flags(ins, args, out):
        fs = [f for _, f in ins]
        return Flags(ordered=False, indexed=True, layout=False, rowset="", pandas_ok=all(f.pandas_ok for f in fs), srcs=tuple(sorted(set().union(*[set(f.srcs) for f in fs]))))


@register("clear_divisions", kinds=("frame", "series"), weight=0.4, tags={"repartition"})
class ClearDivisions(Op):
    @staticmethod
    def apply(side, objs, args):
        return objs[0] if side == "pandas" else objs[0].clear_divisions()

    @staticmethod
    def flags(ins, args, out):
        return replace(ins[0][1], rowset="")


@register("shuffle_index", kinds=("frame",), weight=0.4, tags={"shuffle"})
class ShuffleIndex(Op):
    @staticmethod
    def gen(draw, ins):
        x, f = ins[0]
        if not f.indexed or isinstance(x.index, pd.MultiIndex):
            return None
        return {"npartitions": draw(st().sampled_from([None, 2, 3]))}

    @staticmethod
    def apply(side, objs, args):
        return objs[0] if side == "pandas" else objs[0].shuffle(on_index=True, npartitions=args["npartitions"])

    @staticmethod
    def flags(ins, args, out):
        return replace(ins[0][1], rowset="", ordered=False, layout=False)


@register("set_index_series", kinds=("frame",), weight=0.5, tags={"sort", "set_index"})
class SetIndexSeries(Op):
    """set_index with an aligned Series expression instead of a column name"""

    @staticmethod
    def gen(draw, ins):
        x = ins[0][0]
        cands = [c for c in cols_of(x, ("int",)) if not x[c].isna().any()]
        if not cands or len(x) == 0:
            return None
        return {"col": draw(st().sampled_from(cands)), "add": draw(st().integers(0, 2))}

    @staticmethod
    def apply(side, objs, args):
        key = (objs[0][args["col"]] + args["add"]).rename("newidx")
        if side == "pandas":
            return objs[0].set_index(key).sort_index(kind="stable")
        return objs[0].set_index(key)

    @staticmethod
    def flags(ins, args, out):
        x, f = ins[0]
        return replace(f, rowset="", indexed=True, ordered=bool(x[args["col"]].is_unique), layout=False)


@register("series_stat", arity=2, kinds=("series", "series"), weight=0.4, tags={"reduction", "aligned"})
class SeriesStat(Op):
    @staticmethod
    def gen(draw, ins):
        (a, fa), (b, fb) = ins
        if fa.rowset != fb.rowset or col_kind(a.dtype) not in ("int", "float") or col_kind(b.dtype) not in ("int", "float"):
            return None
        return {"how": draw(st().sampled_from(["cov", "corr"]))}

    @staticmethod
    def apply(side, objs, args):
        return getattr(objs[0], args["how"])(objs[1])

    @staticmethod
    def flags(ins, args, out):
        return replace(ins[0][1], rowset="", ordered=True, indexed=True, layout=True)


@register("frame_stat", kinds=("frame",), weight=0.4, tags={"reduction"})
class FrameStat(Op):
    @staticmethod
    def gen(draw, ins):
        x = ins[0][0]
        num = cols_of(x, ("int", "float"))
        if len(num) < 2:
            return None
        return {"how": draw(st().sampled_from(["cov", "corr"])), "cols": _subset(draw, num, min_size=2, max_size=3)}

    @staticmethod
    def apply(side, objs, args):
        return getattr(objs[0][list(args["cols"])], args["how"])()

    @staticmethod
    def flags(ins, args, out):
        return replace(ins[0][1], rowset="", ordered=True, indexed=True, layout=True)


@register("mode", kinds=("series",), weight=0.3, tags={"reduction"})
class Mode(Op):
    @staticmethod
    def gen(draw, ins):
        if col_kind(ins[0][0].dtype) not in ("int", "str"):
            return None
        return {}

    @staticmethod
    def apply(side, objs, args):
        return objs[0].mode()

    @staticmethod
    def flags(ins, args, out):
        return replace(ins[0][1], rowset="", ordered=True, indexed=False, layout=True)


@register("map_overlap", kinds=("frame",), weight=0.4, tags={"window", "udf"})
class MapOverlap(Op):
    @staticmethod
    def gen(draw, ins):
        x, f = ins[0]
        if not f.ordered or not (len(x.columns) and all(col_kind(d) in ("int", "float") for d in x.dtypes)):
            return None
        s = st()
        return {"before": draw(s.integers(0, 2)), "after": draw(s.integers(0, 2))}

    @staticmethod
    def apply(side, objs, args):
        w = args["before"] + args["after"] + 1
        if side == "pandas":
            return udfs.window_sum(objs[0], before=args["before"], after=args["after"])
        return objs[0].map_overlap(udfs.window_sum, args["before"], args["after"], before=args["before"], after=args["after"], meta=objs[0]._meta.astype("float64"))


@register("reduction_custom", kinds=("series",), weight=0.3, tags={"reduction", "udf"})
class ReductionCustom(Op):
    @staticmethod
    def gen(draw, ins):
        if col_kind(ins[0][0].dtype) not in ("int", "float"):
            return None
        return {}

    @staticmethod
    def apply(side, objs, args):
        if side == "pandas":
            return udfs.red_agg(pd.Series([udfs.red_chunk(objs[0])]))
        return objs[0].reduction(udfs.red_chunk, aggregate=udfs.red_agg, meta=("r", "float64"))

    @staticmethod
    def flags(ins, args, out):
        return replace(ins[0][1], rowset="", ordered=True, indexed=True, layout=True)


# ------------------------------------------------------------------ third operator batch (method operators, ufuncs, query/eval, row-wise reductions, pivot, ...)


def _numeric_frame_or_series(x):
    if kind_of(x) == "series":
        return col_kind(x.dtype) in ("int", "float")
    return kind_of(x) == "frame" and len(x.columns) > 0 and all(col_kind(d) in ("int", "float") for d in x.dtypes)


METHOD_ARITH = ["add", "sub", "mul", "truediv", "floordiv", "mod", "pow", "radd", "rsub", "rmul", "rtruediv"]
METHOD_CMP = ["eq", "ne", "lt", "le", "gt", "ge"]
OPER = {"truediv": operator.truediv, "floordiv": operator.floordiv, "mod": operator.mod, "pow": operator.pow}


@register("method_op", kinds=("series", "frame"), weight=1.0, tags={"rowwise"})
class MethodOp(Op):
    """x.add(c) / x.lt(c) / x // c ... with a positive scalar (MethodOperator, EQSeries.., Div, FloorDiv, Mod, Pow)"""

    @staticmethod
    def gen(draw, ins):
        x = ins[0][0]
        if not _numeric_frame_or_series(x):
            return None
        s = st()
        m = draw(s.sampled_from(METHOD_ARITH + METHOD_CMP))
        out = {"m": m, "c": draw(s.sampled_from([2, 3])), "form": "method"}
        if m in OPER and draw(s.booleans()):
            out["form"] = "operator"
        elif m in METHOD_ARITH and kind_of(x) == "series" and draw(s.integers(0, 3)) == 0:
            out["fill_value"] = 1
        return out

    @staticmethod
    def apply(side, objs, args):
        x = objs[0]
        if args["form"] == "operator":
            return OPER[args["m"]](x, args["c"])
        kw = {"fill_value": args["fill_value"]} if "fill_value" in args else {}
        return getattr(x, args["m"])(args["c"], **kw)


@register("ufunc", kinds=("series", "frame"), weight=0.5, tags={"rowwise"})
class UFunc(Op):
    @staticmethod
    def gen(draw, ins):
        if not _numeric_frame_or_series(ins[0][0]):
            return None
        return {"f": draw(st().sampled_from(["sign", "floor", "negative", "exp"]))}

    @staticmethod
    def apply(side, objs, args):
        return getattr(np, args["f"])(objs[0])


@register("xor", arity=2, kinds=("series", "series"), weight=0.3, tags={"rowwise", "aligned"})
class Xor(Op):
    @staticmethod
    def gen(draw, ins):
        (a, fa), (b, fb) = ins
        if fa.rowset != fb.rowset or col_kind(a.dtype) != "bool" or col_kind(b.dtype) != "bool":
            return None
        return {}

    @staticmethod
    def apply(side, objs, args):
        return objs[0] ^ objs[1]


def _query_string(draw, x):
    s = st()
    num = [c for c in cols_of(x, ("int", "float")) if str(c).isidentifier()]
    if not num:
        return None
    parts = []
    for _ in range(draw(s.integers(1, 2))):
        c = draw(s.sampled_from(num))
        parts.append(f"{c} {draw(s.sampled_from(['>', '<', '>=', '<=', '==', '!=']))} {draw(s.integers(-1, 3))}")
    return f" {draw(s.sampled_from(['and', 'or']))} ".join(parts)


@register("query", kinds=("frame",), weight=1.0, tags={"filter"})
class Query(Op):
    @staticmethod
    def gen(draw, ins):
        q = _query_string(draw, ins[0][0])
        return None if q is None else {"q": q}

    @staticmethod
    def apply(side, objs, args):
        return objs[0].query(args["q"])

    @staticmethod
    def flags(ins, args, out):
        return replace(ins[0][1], rowset="")

    @staticmethod
    def pre(ins, args):
        import re

        return set(re.findall(r"[A-Za-z_][A-Za-z_0-9]*", args["q"])) - {"and", "or"} <= set(map(str, ins[0][0].columns))


@register("eval_assign", kinds=("frame",), weight=0.6, tags={"rowwise"})
class EvalAssign(Op):
    @staticmethod
    def gen(draw, ins):
        x = ins[0][0]
        num = [c for c in cols_of(x, ("int", "float")) if str(c).isidentifier()]
        if not num:
            return None
        s = st()
        a, b = draw(s.sampled_from(num)), draw(s.sampled_from(num))
        target = draw(s.sampled_from(["ev", a]))
        return {"e": f"{target} = {a} {draw(s.sampled_from(['+', '-', '*']))} {b} + 1"}

    @staticmethod
    def apply(side, objs, args):
        return objs[0].eval(args["e"])

    @staticmethod
    def pre(ins, args):
        import re

        return set(re.findall(r"[A-Za-z_][A-Za-z_0-9]*", args["e"].split("=", 1)[1])) <= set(map(str, ins[0][0].columns))


@register("row_reduce", kinds=("frame",), weight=0.8, tags={"rowwise"})
class RowReduce(Op):
    """reductions along axis=1 over the numeric columns (VarColumns, sum/count(axis=1), ...)"""

    @staticmethod
    def gen(draw, ins):
        x = ins[0][0]
        num = cols_of(x, ("int", "float"))
        if len(num) < 2:
            return None
        return {"cols": _subset(draw, num, min_size=2, max_size=3), "how": draw(st().sampled_from(["sum", "mean", "min", "max", "count", "var", "std"]))}

    @staticmethod
    def apply(side, objs, args):
        return getattr(objs[0][list(args["cols"])], args["how"])(axis=1)


@register("rename_axis", kinds=("frame", "series"), weight=0.4, tags={"rowwise"})
class RenameAxis(Op):
    @staticmethod
    def gen(draw, ins):
        x, f = ins[0]
        if isinstance(x.index, pd.MultiIndex):
            return None
        return {"name": draw(st().sampled_from(["ax", "idx", None]))}

    @staticmethod
    def apply(side, objs, args):
        return objs[0].rename_axis(args["name"])


@register("set_columns", kinds=("frame",), weight=0.4, tags={"rowwise", "proj"})
class SetColumns(Op):
    """df.columns = [...] on a copy (ColumnsSetter)"""

    @staticmethod
    def gen(draw, ins):
        x = ins[0][0]
        if len(x.columns) == 0 or "rid" in x.columns:
            return None
        return {"names": [f"c{i}" for i in range(len(x.columns))]}

    @staticmethod
    def apply(side, objs, args):
        y = objs[0].copy()
        y.columns = list(args["names"])
        return y

    @staticmethod
    def pre(ins, args):
        return len(args["names"]) == len(ins[0][0].columns)


@register("apply_rows", kinds=("frame",), weight=0.5, tags={"rowwise", "udf"})
class ApplyRows(Op):
    @staticmethod
    def gen(draw, ins):
        num = cols_of(ins[0][0], ("int", "float"))
        if not num:
            return None
        return {"cols": _subset(draw, num, max_size=3)}

    @staticmethod
    def apply(side, objs, args):
        x = objs[0][list(args["cols"])]
        if side == "pandas":
            if len(x) == 0:
                return pd.Series([], index=x.index, dtype="float64")
            return x.apply(udfs.row_nansum, axis=1)
        return x.apply(udfs.row_nansum, axis=1, meta=(None, "float64"))


@register("series_map_func", kinds=("series",), weight=0.4, tags={"rowwise", "udf"})
class SeriesMapFunc(Op):
    @staticmethod
    def gen(draw, ins):
        if col_kind(ins[0][0].dtype) not in ("int", "float"):
            return None
        return {}

    @staticmethod
    def apply(side, objs, args):
        x = objs[0]
        if side == "pandas":
            return x.map(udfs.plus_one)
        return x.map(udfs.plus_one, meta=(x.name, x.dtype))


@register("index_to", kinds=("frame", "series"), weight=0.3, tags={"rowwise"})
class IndexTo(Op):
    @staticmethod
    def gen(draw, ins):
        x, f = ins[0]
        if not f.indexed or isinstance(x.index, pd.MultiIndex):
            return None
        return {"how": draw(st().sampled_from(["to_series", "to_frame"]))}

    @staticmethod
    def apply(side, objs, args):
        return getattr(objs[0].index, args["how"])()

    @staticmethod
    def pre(ins, args):
        return ins[0][1].indexed


@register("case_when", kinds=("series",), weight=0.4, tags={"rowwise"})
class CaseWhen(Op):
    @staticmethod
    def gen(draw, ins):
        if col_kind(ins[0][0].dtype) not in ("int", "float"):
            return None
        s = st()
        return {"c": draw(s.integers(-1, 3)), "v": draw(s.sampled_from([-1, 0, 9])), "cmp": draw(s.sampled_from(["gt", "le"]))}

    @staticmethod
    def apply(side, objs, args):
        x = objs[0]
        return x.case_when([(BIN[args["cmp"]](x, args["c"]), args["v"])])


@register("sample_all", kinds=("frame", "series"), weight=0.3, tags={"rowwise"})
class SampleAll(Op):
    """sample(frac=1.0): a permutation inside every partition; the row multiset is unchanged"""

    @staticmethod
    def apply(side, objs, args):
        if side == "pandas":
            return objs[0]
        return objs[0].sample(frac=1.0, random_state=7)

    @staticmethod
    def flags(ins, args, out):
        return replace(ins[0][1], rowset="", ordered=False)


@register("explode", kinds=("frame",), weight=0.3, tags={"rowwise"})
class Explode(Op):
    """explode of a column of scalars keeps every row (the projection / filter rules of ExplodeFrame are what is exercised)"""

    @staticmethod
    def gen(draw, ins):
        c = cols_of(ins[0][0], ("str", "int"))
        if not c:
            return None
        return {"col": draw(st().sampled_from(c))}

    @staticmethod
    def apply(side, objs, args):
        return objs[0].explode(args["col"])

    @staticmethod
    def pre(ins, args):
        return args["col"] in ins[0][0].columns


@register("frame_nunique", kinds=("frame",), weight=0.3, tags={"reduction"})
class FrameNunique(Op):
    @staticmethod
    def gen(draw, ins):
        if not len(ins[0][0].columns):
            return None
        return {}

    @staticmethod
    def apply(side, objs, args):
        return objs[0].nunique()

    @staticmethod
    def flags(ins, args, out):
        return replace(ins[0][1], rowset="", ordered=True, indexed=True, layout=True)


@register("groupby_holistic", kinds=("frame",), weight=0.8, tags={"groupby"})
class GroupbyHolistic(Op):
    """median / prod / cov / corr per group"""

    @staticmethod
    def gen(draw, ins):
        x, f = ins[0]
        keys = [c for c in cols_of(x, ("int", "str")) if c != "rid"]
        if not keys:
            return None
        s = st()
        by = [draw(s.sampled_from(keys))]
        vals = [c for c in cols_of(x, ("int", "float")) if c not in by]
        if not vals:
            return None
        how = draw(s.sampled_from(["median", "prod", "median", "cov", "corr"]))
        if how in ("cov", "corr"):
            # known finding D69 (cov/corr over missing values): excluded by construction, canary in the C02 catalogue
            vals = [c for c in vals if not x[c].isna().any()]
            if len(vals) < 2 or len(x) == 0:
                return None
            return {"by": by, "how": how, "cols": _subset(draw, vals, min_size=2, max_size=2)}
        return {"by": by, "how": how, "cols": _subset(draw, vals, max_size=2), "series": draw(s.booleans())}

    @staticmethod
    def apply(side, objs, args):
        g = objs[0].groupby(args["by"][0])
        cols = list(args["cols"])
        g = g[cols[0]] if args.get("series") else g[cols]
        out = getattr(g, args["how"])()
        if args["how"] in ("cov", "corr"):
            # dask orders the labels of the matrix alphabetically on some paths and keeps the selection order on others:
            # the column order of the matrix is not part of the comparison (rows are compared unordered anyway)
            out = out[sorted(cols)]
        return out

    @staticmethod
    def flags(ins, args, out):
        return replace(ins[0][1], rowset="", indexed=True, ordered=False, layout=False)

    @staticmethod
    def pre(ins, args):
        x = ins[0][0]
        if not set(args["by"]) | set(args["cols"]) <= set(x.columns):
            return False
        return args["how"] not in ("cov", "corr") or (len(x) > 0 and not x[list(args["cols"])].isna().any().any())


@register("pivot_table", kinds=("frame",), weight=0.4, tags={"groupby"})
class PivotTable(Op):
    @staticmethod
    def gen(draw, ins):
        x, f = ins[0]
        s = st()
        # pandas drops all-NaN cells / rows and rows whose column key is missing; dask keeps them: only complete data is compared
        idx = [c for c in cols_of(x, ("int",)) if c != "rid" and not x[c].isna().any()]
        cat = [c for c in cols_of(x, ("str",)) if len(x) and x[c].notna().all()]
        vals = [c for c in cols_of(x, ("float", "int")) if x[c].notna().all()]
        if not idx or not cat:
            return None
        i, c = draw(s.sampled_from(idx)), draw(s.sampled_from(cat))
        vals = [v for v in vals if v not in (i, c)]
        if not vals:
            return None
        return {"index": i, "columns": c, "values": draw(s.sampled_from(vals)), "aggfunc": draw(s.sampled_from(["sum", "mean", "count"]))}

    @staticmethod
    def apply(side, objs, args):
        x = objs[0]
        kw = dict(index=args["index"], columns=args["columns"], values=args["values"], aggfunc=args["aggfunc"])
        if side == "pandas":
            cats = sorted(x[args["columns"]].dropna().unique().tolist())
            y = x.astype({args["columns"]: pd.CategoricalDtype(cats)})
            out = y.pivot_table(observed=False, **kw)
            # every category is a column (pandas drops all-NaN columns); sum/count of a pair that does not occur is 0
            out = out.reindex(columns=pd.CategoricalIndex(cats, categories=cats, name=args["columns"]))
            return out if args["aggfunc"] == "mean" else out.fillna(0)
        return x.categorize(columns=[args["columns"]]).pivot_table(**kw)

    @staticmethod
    def flags(ins, args, out):
        return replace(ins[0][1], rowset="", indexed=True, ordered=False, layout=False)

    @staticmethod
    def pre(ins, args):
        x = ins[0][0]
        c = args["columns"]
        return ({args["index"], c, args["values"]} <= set(x.columns) and len({args["index"], c, args["values"]}) == 3 and len(x) > 0 and x[c].notna().all()
                and not x[args["index"]].isna().any() and x[args["values"]].notna().all() and col_kind(x[c].dtype) == "str")
