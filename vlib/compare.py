"""Type-driven comparators (DESIGN §2.6).

equiv(a, b, order=..., index=..., dtypes=...) -> None when equivalent, else a
short human readable description of the first difference.
"""
import math
import numbers

import numpy as np
import pandas as pd

RTOL = 1e-9
ATOL = 1e-12


def _is_na(x):
    try:
        r = pd.isna(x)
        return bool(r) if isinstance(r, (bool, np.bool_)) else False
    except Exception:
        return False


def scalar_equiv(a, b):
    if _is_na(a) and _is_na(b):
        return None
    if _is_na(a) != _is_na(b):
        return f"scalar {a!r} != {b!r}"
    if isinstance(a, (bool, np.bool_)) or isinstance(b, (bool, np.bool_)):
        return None if bool(a) == bool(b) else f"scalar {a!r} != {b!r}"
    if isinstance(a, numbers.Number) and isinstance(b, numbers.Number):
        if isinstance(a, numbers.Integral) and isinstance(b, numbers.Integral):
            return None if int(a) == int(b) else f"scalar {a!r} != {b!r}"
        try:
            if math.isclose(float(a), float(b), rel_tol=RTOL, abs_tol=ATOL):
                return None
            if math.isinf(float(a)) and math.isinf(float(b)) and float(a) == float(b):
                return None
        except Exception:
            pass
        return f"scalar {a!r} != {b!r}"
    try:
        ok = a == b
        if isinstance(ok, (bool, np.bool_)) and ok:
            return None
    except Exception:
        pass
    return f"scalar {a!r} != {b!r}"


def _norm_name(info):
    """None and NaN both mean 'no name' (pandas 3 infers str-typed label Indexes in which None becomes NaN)"""
    kind, name = info
    if isinstance(name, float) and name != name:
        name = None
    if isinstance(name, tuple):
        name = tuple(None if (isinstance(n, float) and n != n) else n for n in name)
    return (kind, name)


def container_kind(x):
    if isinstance(x, pd.DataFrame):
        return "frame"
    if isinstance(x, pd.Series):
        return "series"
    if isinstance(x, pd.Index):
        return "index"
    if isinstance(x, np.ndarray):
        return "array"
    return "scalar"


def _to_frame(x):
    """Series/Index -> single-column frame with a reserved label; returns
    (frame, name-info)."""
    if isinstance(x, pd.DataFrame):
        return x, ("frame", tuple(x.columns.names))
    if isinstance(x, pd.Series):
        return x.to_frame(name="__v__"), ("series", x.name)
    if isinstance(x, pd.Index):
        if isinstance(x, pd.MultiIndex):
            f = x.to_frame(index=False)
            f.columns = [f"__l{i}__" for i in range(f.shape[1])]
            return f, ("mindex", tuple(x.names))
        return pd.DataFrame({"__v__": np.asarray(x) if x.dtype.kind in "iufbM" else x.astype(object)}), ("index", x.name)
    if isinstance(x, np.ndarray):
        return pd.DataFrame({"__v__": x}), ("array", None)
    raise TypeError(type(x))


def _sort_key_col(s):
    """A column that sorts deterministically: (isna, comparable value)."""
    if isinstance(s.dtype, pd.CategoricalDtype):
        s = s.astype(object)
    if s.dtype.kind == "f":
        return np.round(s.astype("float64"), 7)
    if s.dtype.kind == "c":
        return s.astype(str)
    if s.dtype == object or str(s.dtype).startswith(("string", "str")):
        return s.astype(object).map(lambda v: None if _is_na(v) else str(v))
    return s


def canonical_rows(df, index):
    """Frame with positional columns; index levels moved to columns when
    ``index`` (they take part in the comparison), else dropped."""
    if index:
        nlev = df.index.nlevels
        idxf = df.index.to_frame(index=False)
        idxf.columns = [f"__i{i}__" for i in range(nlev)]
        out = pd.concat([idxf, df.reset_index(drop=True)], axis=1)
    else:
        out = df.reset_index(drop=True)
    out.columns = pd.RangeIndex(out.shape[1])
    return out


def sort_rows(cf):
    if len(cf) <= 1 or cf.shape[1] == 0:
        return cf
    key = pd.DataFrame({i: _sort_key_col(cf[i]) for i in cf.columns})
    try:
        order = key.sort_values(by=list(key.columns), kind="stable", na_position="last").index
    except TypeError:
        key = key.astype(str)
        order = key.sort_values(by=list(key.columns), kind="stable").index
    return cf.loc[order].reset_index(drop=True)


def _col_equal(a, b):
    """positional comparison of two equally long Series; returns first bad pos or None"""
    if isinstance(a.dtype, pd.CategoricalDtype):
        a = a.astype(object)
    if isinstance(b.dtype, pd.CategoricalDtype):
        b = b.astype(object)
    na = a.isna().to_numpy()
    nb = b.isna().to_numpy()
    if (na != nb).any():
        return int(np.argmax(na != nb))
    ak, bk = a.dtype.kind if hasattr(a.dtype, "kind") else "O", b.dtype.kind if hasattr(b.dtype, "kind") else "O"
    num = "iufb"
    if ak in num and bk in num:
        av = a.to_numpy(dtype="float64", na_value=np.nan)
        bv = b.to_numpy(dtype="float64", na_value=np.nan)
        if ak in "iub" and bk in "iub":
            ok = av == bv
        else:
            ok = np.isclose(av, bv, rtol=RTOL, atol=ATOL, equal_nan=True) | (av == bv)
        ok = ok | na
    else:
        ao = a.astype(object).to_numpy()
        bo = b.astype(object).to_numpy()
        ok = np.array([True if na[i] else scalar_equiv(ao[i], bo[i]) is None for i in range(len(ao))], dtype=bool)
    if ok.all():
        return None
    return int(np.argmin(ok))


def dtype_kind(dt):
    if isinstance(dt, pd.CategoricalDtype):
        return "cat"
    s = str(dt)
    if s.startswith(("string", "str")) or dt == object:
        return "str/obj"
    k = getattr(dt, "kind", "O")
    if k in "iu":
        return "int"
    if k == "f":
        return "float"
    if k == "b":
        return "bool"
    if k == "M":
        return "datetime"
    if k == "m":
        return "timedelta"
    if k == "c":
        return "complex"
    return "str/obj"


def dtype_compatible(declared, actual, has_null, mode):
    """mode 'exact' | 'kind' | 'none'."""
    if mode == "none":
        return True
    if mode == "exact":
        return str(declared) == str(actual)
    if mode == "promo":
        # identical, or pandas' int/bool <-> float/object promotion that depends on whether a
        # *partition* saw missing values (e.g. rows introduced by an outer join and filtered out later)
        if str(declared) == str(actual):
            return True
        dk, ak = dtype_kind(declared), dtype_kind(actual)
        return {dk, ak} <= {"int", "bool", "float", "str/obj"} and dk != ak and ("int" in (dk, ak) or "bool" in (dk, ak))
    dk, ak = dtype_kind(declared), dtype_kind(actual)
    if dk == ak:
        return True
    if mode == "kindpromo" and {dk, ak} <= {"int", "bool", "float", "str/obj"} and ("int" in (dk, ak) or "bool" in (dk, ak)):
        # the column acquired missing values somewhere upstream (outer join, shift, where) even if they
        # were filtered out again: pandas itself keeps the promoted dtype
        return True
    # pandas' own promotion of int/bool that acquired missing values
    if dk in ("int", "bool") and ak in ("float", "str/obj") and has_null:
        return True
    if ak in ("int", "bool") and dk in ("float", "str/obj") and has_null:
        return True
    return False


def equiv(a, b, order=True, index=True, dtypes="kind", names=True):
    """a: observed, b: expected."""
    ka, kb = container_kind(a), container_kind(b)
    if ka == "array" and kb in ("series", "index"):
        kb = "array"
    if kb == "array" and ka in ("series", "index"):
        ka = "array"
    if ka != kb:
        # numpy scalar vs python scalar is fine; 0-dim array is a scalar
        return f"container {ka} != {kb}"
    if ka == "scalar":
        if isinstance(a, np.ndarray):
            a = a.item()
        if isinstance(b, np.ndarray):
            b = b.item()
        return scalar_equiv(a, b)
    fa, ia = _to_frame(a)
    fb, ib = _to_frame(b)
    if ka == "array":
        index = False
        names = False
    if ka == "index":
        index = False
    if names and _norm_name(ia) != _norm_name(ib):
        return f"name {ia!r} != {ib!r}"
    if fa.shape[1] != fb.shape[1] or list(map(str, fa.columns)) != list(map(str, fb.columns)) or list(fa.columns) != list(fb.columns):
        return f"columns {list(fa.columns)!r} != {list(fb.columns)!r}"
    if len(fa) != len(fb):
        return f"length {len(fa)} != {len(fb)}"
    if index and names and len(fa) > 0 and tuple(fa.index.names) != tuple(fb.index.names):
        # (0-row results: pandas itself is inconsistent about keeping index names of empty inputs)
        return f"index names {tuple(fa.index.names)!r} != {tuple(fb.index.names)!r}"
    if index and fa.index.nlevels != fb.index.nlevels:
        return f"index nlevels {fa.index.nlevels} != {fb.index.nlevels}"
    ca, cb = canonical_rows(fa, index), canonical_rows(fb, index)
    if not order:
        ca, cb = sort_rows(ca), sort_rows(cb)
    labels = ([f"<index{i}>" for i in range(fa.index.nlevels)] if index else []) + list(fa.columns)
    for j in ca.columns:
        bad = _col_equal(ca[j], cb[j])
        if bad is not None:
            return f"values differ in column {labels[j]!r} at {'sorted ' if not order else ''}row {bad}: {ca[j].iloc[bad]!r} != {cb[j].iloc[bad]!r}"
    if dtypes != "none" and len(fa) > 0:
        for j, c in enumerate(fa.columns):
            has_null = bool(fa.iloc[:, j].isna().any() or fb.iloc[:, j].isna().any())
            if not dtype_compatible(fb.dtypes.iloc[j], fa.dtypes.iloc[j], has_null, dtypes):
                return f"dtype of {c!r}: {fa.dtypes.iloc[j]} != {fb.dtypes.iloc[j]}"
    return None


def is_sorted_by(df, by, ascending=True, na_position="last"):
    """Validity predicate for sort_values outputs."""
    if len(df) <= 1:
        return True
    exp = df.sort_values(by=by, ascending=ascending, na_position=na_position, kind="stable")
    keys_a = canonical_rows(df[by] if isinstance(by, list) else df[[by]], False)
    keys_b = canonical_rows(exp[by] if isinstance(by, list) else exp[[by]], False)
    for j in keys_a.columns:
        if _col_equal(keys_a[j], keys_b[j]) is not None:
            return False
    return True
