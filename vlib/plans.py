"""Plan stages and execution helpers shared by the program-based properties."""
import contextlib

import dask

from . import sched

STAGES = ["simplified-logical", "tuned-logical", "physical", "simplified-physical", "fused"]


def optimize_until(expr, stage):
    from dask_expr._expr import optimize_until as ou

    return ou(expr, stage)


@contextlib.contextmanager
def config(cfg):
    kw = {}
    if cfg and cfg.get("shuffle"):
        kw["dataframe.shuffle.method"] = cfg["shuffle"]
    with dask.config.set(kw):
        yield


def lowered(expr):
    return expr.lower_completely()


def execute(expr, order=None, monitor=False):
    """Execute an expression of any stage with the own executor.
    Returns (result, partitions, cache, mutations, lowered_expr)."""
    from dask_expr import new_collection

    low = expr.lower_completely()
    graph = dict(low.__dask_graph__())
    parts, cache, mut = sched.partitions_of(low, graph, order=order, monitor=monitor)
    post, extra = new_collection(low).__dask_postcompute__()
    res = post(parts, *extra)
    return res, parts, cache, mut, low


def classes_in(expr):
    out = {}
    for e in expr.walk():
        n = type(e).__name__
        out[n] = out.get(n, 0) + 1
    return out


def has_class(expr, *names):
    return any(type(e).__name__ in names for e in expr.walk())
