"""Engine self-test (setup_cmd): comparators against hand-made pairs and
three hand-written programs through both interpreters."""
import sys

import numpy as np
import pandas as pd

import vlib

vlib.setup_dask()
from vlib import interp, plans  # noqa: E402
from vlib.compare import equiv  # noqa: E402


def main():
    a = pd.DataFrame({"x": [1, 2, 3], "y": [1.0, np.nan, 3.0]}, index=[5, 6, 7])
    assert equiv(a, a.copy()) is None
    assert equiv(a, a.iloc[::-1]) is not None
    assert equiv(a, a.iloc[::-1], order=False) is None
    assert equiv(a, a.reset_index(drop=True)) is not None
    assert equiv(a, a.reset_index(drop=True), index=False) is None
    b = a.copy()
    b.loc[6, "y"] = 0.0
    assert equiv(a, b) is not None
    assert equiv(a, a.rename(columns={"x": "z"})) is not None
    assert equiv(a.x, a.x.rename("q")) is not None
    assert equiv(1.0, 1.0 + 1e-13) is None and equiv(1.0, 1.1) is not None
    assert equiv(np.float64("nan"), float("nan")) is None
    assert equiv(a.astype({"x": "float64"}), a, dtypes="exact") is not None
    t = {"name": "t0", "columns": [["k", "int"], ["f", "float"], ["s", "str"], ["rid", "int"]],
         "rows": [[1, 0.5, "a", 0], [2, None, None, 1], [1, 1.5, "b", 2], [3, 2.0, "a", 3]],
         "index": {"kind": "range", "name": None}, "layout": {"kind": "from_map", "cuts": [1, 0, 3]}}
    progs = [
        {"tables": [t], "steps": [{"id": "v1", "op": "filter_pred", "in": ["t0"], "args": {"pred": {"col": "f", "cmp": "gt", "val": 0}}},
                                  {"id": "v2", "op": "cols", "in": ["v1"], "args": {"cols": ["k", "rid"]}}], "out": ["v2"]},
        {"tables": [t], "steps": [{"id": "v1", "op": "groupby_agg", "in": ["t0"], "args": {"by": ["k"], "col": "f", "how": "sum", "split_out": 1, "sort": None}}], "out": ["v1"]},
        {"tables": [t], "steps": [{"id": "v1", "op": "merge", "in": ["t0", "t0"], "args": {"on": ["k"], "how": "inner", "suffixes": None, "broadcast": None, "shuffle_method": "tasks"}}], "out": ["v1"]},
    ]
    for p in progs:
        pv = interp.run_pandas(p)
        fl = interp.static_flags(p, pv)
        dv = interp.run_dask(p)
        o = p["out"][0]
        res = plans.execute(dv[o].expr)[0]
        d = equiv(res, pv[o], order=fl[o].ordered, index=fl[o].indexed)
        assert d is None, d
    print("selftest ok")
    return 0


if __name__ == "__main__":
    sys.exit(main())
