"""Runner (DESIGN §2.7): sharded workers, collect-then-minimise, known
findings, replay files, evidence."""
import argparse
import hashlib
import importlib
import json
import os
import shutil
import subprocess
import sys
import time
import traceback

from . import VERIF_ROOT, REPO_ROOT

NWORKERS = int(os.environ.get("VERIF_WORKERS", "16"))


# ----------------------------------------------------------------- failures


class Failure(Exception):
    """Raised/returned by property oracles.  kind: short oracle label."""

    def __init__(self, kind, detail, stage=None, exc=None, extra=None):
        super().__init__(f"{kind}: {detail}")
        self.kind = kind
        self.detail = detail
        self.stage = stage
        self.exc = exc
        self.extra = extra or {}

    def record(self):
        rec = {"kind": self.kind, "detail": str(self.detail)[:2000], "stage": self.stage}
        if self.exc is not None:
            rec["exc_type"] = type(self.exc).__name__
            rec["exc_msg"] = str(self.exc)[:500]
            rec["frame"] = innermost_frame(self.exc)
            rec["traceback"] = "".join(traceback.format_exception(type(self.exc), self.exc, self.exc.__traceback__))[-3000:]
        rec.update(self.extra)
        return rec


def innermost_frame(exc, pkg="dask_expr"):
    tb = exc.__traceback__
    best = None
    while tb is not None:
        fn = tb.tb_frame.f_code.co_filename
        if f"/{pkg}/" in fn and "/tests/" not in fn:
            best = f"{os.path.basename(fn)}:{tb.tb_frame.f_code.co_name}"
        tb = tb.tb_next
    return best


def bucket_of(rec):
    if rec.get("exc_type"):
        return f"{rec['kind']}|{rec.get('exc_type')}|{rec.get('frame')}"
    return f"{rec['kind']}|{rec.get('bucket_hint', '')}"


# ----------------------------------------------------------------- worker


def seed_for(seed, pid, w):
    return int(hashlib.sha1(f"{seed}:{pid}:{w}".encode()).hexdigest()[:8], 16)


def load_prop(pid):
    return importlib.import_module(f"vlib.props.{pid.lower()}")


class Stats:
    def __init__(self):
        self.evaluations = 0
        self.nontrivial = set()
        self.classes = {}
        self.counters = {}
        self.failures = {}  # bucket -> list of (case, rec)
        self.samples = []
        self.harness_errors = []
        self.skipped_budget = 0
        self.generated = 0

    def count(self, name, n=1):
        self.counters[name] = self.counters.get(name, 0) + n

    def to_dict(self):
        return {
            "evaluations": self.evaluations,
            "nontrivial": sorted(self.nontrivial),
            "classes": self.classes,
            "counters": self.counters,
            "failures": {b: v[:3] for b, v in self.failures.items()},
            "failure_counts": {b: len(v) for b, v in self.failures.items()},
            "samples": self.samples,
            "harness_errors": self.harness_errors[:5],
            "skipped_budget": self.skipped_budget,
            "generated": self.generated,
        }


def run_case(mod, case, stats, sample_every=1):
    """Run one case through the property's oracle; never raises for property failures."""
    from .interp import case_hash

    stats.generated += 1
    t_case = time.monotonic()
    try:
        res = mod.check(case)
        if os.environ.get("VERIF_SLOWLOG") and time.monotonic() - t_case > 20:
            with open(os.environ["VERIF_SLOWLOG"], "a") as f:  # development aid
                f.write(json.dumps({"s": round(time.monotonic() - t_case, 1), "case": case}, default=str)[:4000] + "\n")
    except Failure as f:  # oracle raised directly
        res = {"failures": [f.record()], "evaluations": 1}
    except Exception as e:  # harness bug
        stats.harness_errors.append({"case": case, "error": "".join(traceback.format_exception(type(e), e, e.__traceback__))[-3000:]})
        return
    stats.evaluations += res.get("evaluations", 1)
    for c in res.get("classes", ()):  # histogram
        stats.classes[c] = stats.classes.get(c, 0) + 1
    for k, v in res.get("counters", {}).items():
        stats.count(k, v)
    h = case_hash(case)
    if res.get("nontrivial"):
        nt = res["nontrivial"]
        if nt is True:
            stats.nontrivial.add(h)
        else:  # list of distinct non-trivial keys
            for k in nt:
                stats.nontrivial.add(str(k))
        if len(stats.samples) < 4 and res.get("sample") is not None:
            stats.samples.append(res["sample"])
    for rec in res.get("failures", ()):  # collect, do not stop
        b = bucket_of(rec)
        stats.failures.setdefault(b, [])
        if len(stats.failures[b]) < 50:
            stats.failures[b].append({"case": case, "rec": rec})
        else:
            stats.failures[b].append(None)


def worker_main(pid, tier, seed, w, nworkers, budget_s, work_dir):
    os.environ["VERIF_WORK"] = work_dir
    os.makedirs(work_dir, exist_ok=True)
    from . import setup_dask

    setup_dask()
    mod = load_prop(pid)
    stats = Stats()
    t0 = time.monotonic()
    ctx = {"tier": tier, "seed": seed, "worker": w, "nworkers": nworkers}
    if hasattr(mod, "setup_worker"):
        mod.setup_worker(ctx)

    def over():
        return time.monotonic() - t0 > budget_s

    try:
        sysfrac = getattr(mod, "SYSTEMATIC_BUDGET_FRACTION", 0.7)
        i = -1
        for i, case in enumerate(mod.systematic(tier)):
            if i % nworkers != w:
                continue
            if time.monotonic() - t0 > budget_s * sysfrac:
                stats.skipped_budget += 1
                continue
            run_case(mod, case, stats)
        strat = mod.strategy(tier) if hasattr(mod, "strategy") else None
        n = mod.n_random(tier) if strat is not None else 0
        n_w = n // nworkers + (1 if w < n % nworkers else 0)
        if strat is not None and n_w > 0:
            import hypothesis
            from hypothesis import HealthCheck, Phase, given, settings

            @hypothesis.seed(seed_for(seed, pid, w))
            @settings(
                max_examples=n_w,
                deadline=None,
                database=None,
                derandomize=False,
                report_multiple_bugs=False,
                suppress_health_check=list(HealthCheck),
                phases=[Phase.generate],
            )
            @given(strat)
            def prop(case):
                if over():
                    stats.skipped_budget += 1
                    return
                run_case(mod, case, stats)

            prop()
    except Exception as e:
        stats.harness_errors.append({"case": None, "error": "".join(traceback.format_exception(type(e), e, e.__traceback__))[-3000:]})
    finally:
        if hasattr(mod, "teardown_worker"):
            try:
                mod.teardown_worker(ctx)
            except Exception:
                pass
    d = stats.to_dict()
    d["wall_s"] = time.monotonic() - t0
    return d


# ----------------------------------------------------------------- known findings


def load_known():
    p = os.path.join(VERIF_ROOT, "known_findings.json")
    if not os.path.exists(p):
        return []
    with open(p) as f:
        return json.load(f)["findings"]


def classify_known(pid, case, rec, known):
    from . import known as K

    for ent in known:
        if ent.get("status") != "known":
            continue
        if pid not in ent.get("properties", [ent.get("property")]):
            continue
        m = getattr(K, ent["matcher"], None)
        if m is None:
            continue
        try:
            if m(case, rec):
                return ent
        except Exception:
            continue
    return None


# ----------------------------------------------------------------- main


def check_single(mod, case):
    """-> list of failure records for one case (in this process)"""
    try:
        res = mod.check(case)
        return res.get("failures", [])
    except Failure as f:
        return [f.record()]


def confirm_fresh(pid, case, bucket):
    """Re-run a single case in a fresh interpreter; True when the same bucket fails again."""
    work = os.path.join(VERIF_ROOT, ".work")
    os.makedirs(work, exist_ok=True)
    path = os.path.join(work, f"confirm-{os.getpid()}-{hashlib.sha1(json.dumps(case, sort_keys=True, default=str).encode()).hexdigest()[:10]}.json")
    with open(path, "w") as f:
        json.dump({"property": pid, "case": case}, f, default=str)
    try:
        env = dict(os.environ, PYTHONHASHSEED="0")
        out = subprocess.run(
            [sys.executable, "-m", "vlib.runner", pid, "--replay", path, "--buckets"],
            cwd=VERIF_ROOT, env=env, capture_output=True, text=True, timeout=600,
        )
        return any(line.strip() == f"BUCKET {bucket}" for line in out.stdout.splitlines()), out.stdout[-2000:] + out.stderr[-2000:]
    except subprocess.TimeoutExpired:
        return False, "timeout"
    finally:
        try:
            os.remove(path)
        except OSError:
            pass


def minimise(mod, case, bucket, max_evals=250):
    if not hasattr(mod, "shrink_candidates"):
        return case, 0
    evals = 0
    cur = case
    improved = True
    while improved and evals < max_evals:
        improved = False
        for cand in mod.shrink_candidates(cur):
            if evals >= max_evals:
                break
            evals += 1
            try:
                recs = check_single(mod, cand)
            except Exception:
                continue
            if any(bucket_of(r) == bucket for r in recs):
                cur = cand
                improved = True
                break
    return cur, evals


def write_replay(pid, case, rec, note=""):
    from .interp import case_hash

    d = os.path.join(VERIF_ROOT, "replays")
    os.makedirs(d, exist_ok=True)
    path = os.path.join(d, f"{pid}-{case_hash([case, rec.get('kind'), rec.get('stage')])}.json")
    with open(path, "w") as f:
        json.dump({"property": pid, "case": case, "failure": rec, "note": note}, f, indent=1, default=str)
    return path


def main(argv=None):
    ap = argparse.ArgumentParser()
    ap.add_argument("property")
    ap.add_argument("--tier", default=os.environ.get("VERIF_TIER", "quick"), choices=["quick", "thorough"])
    ap.add_argument("--replay")
    ap.add_argument("--buckets", action="store_true")
    ap.add_argument("--discover", action="store_true", help="development: list every bucket, minimised; always exit 0")
    ap.add_argument("--workers", type=int, default=NWORKERS)
    args = ap.parse_args(argv)
    pid = args.property.upper()
    seed = int(os.environ.get("VERIF_SEED", "1") or 1)
    os.environ.setdefault("PYTHONHASHSEED", "0")

    from . import setup_dask

    if args.replay:
        work_dir = os.path.join(VERIF_ROOT, ".work", f"{pid}-replay-{os.getpid()}")
        os.environ["VERIF_WORK"] = work_dir
        os.makedirs(work_dir, exist_ok=True)
        try:
            setup_dask()
            mod = load_prop(pid)
            with open(args.replay) as f:
                data = json.load(f)
            if hasattr(mod, "setup_worker"):
                mod.setup_worker({"tier": "quick", "seed": seed, "worker": 0, "nworkers": 1})
            recs = check_single(mod, data["case"])
            known = load_known()
            bad = 0
            for r in recs:
                if args.buckets:
                    print(f"BUCKET {bucket_of(r)}")
                ent = classify_known(pid, data["case"], r, known)
                if ent is not None:
                    print(f"KNOWN-FINDING: property={pid} {ent['id']} {ent['description']}")
                else:
                    bad += 1
                    print(f"VIOLATION property={pid} replay={args.replay}")
                    print(json.dumps(r, indent=1, default=str)[:3000])
            if not recs:
                print(f"OK property={pid} replay holds")
            return 1 if bad else 0
        finally:
            shutil.rmtree(work_dir, ignore_errors=True)

    mod = load_prop(pid)
    tier = args.tier
    budget_s = mod.BUDGET_S[tier] if hasattr(mod, "BUDGET_S") else (150 if tier == "quick" else 1800)
    t0 = time.monotonic()
    nworkers = max(1, args.workers)
    work_root = os.path.join(VERIF_ROOT, ".work", f"{pid}-{os.getpid()}")
    os.makedirs(work_root, exist_ok=True)
    results = []
    harness_fail = None
    try:
        if nworkers == 1:
            results.append(worker_main(pid, tier, seed, 0, 1, budget_s, os.path.join(work_root, "w0")))
        else:
            import multiprocessing as mp
            from concurrent.futures import ProcessPoolExecutor

            ctx = mp.get_context("spawn")
            with ProcessPoolExecutor(max_workers=nworkers, mp_context=ctx) as ex:
                futs = [ex.submit(worker_main, pid, tier, seed, w, nworkers, budget_s, os.path.join(work_root, f"w{w}")) for w in range(nworkers)]
                for f in futs:
                    try:
                        results.append(f.result())
                    except Exception as e:
                        harness_fail = f"worker died: {e!r}"
    finally:
        shutil.rmtree(work_root, ignore_errors=True)

    # ------------------------------------------------------------ aggregate
    agg = {"evaluations": 0, "nontrivial": set(), "classes": {}, "counters": {}, "failures": {}, "failure_counts": {}, "samples": [], "harness_errors": [], "skipped_budget": 0, "generated": 0}
    for r in results:
        agg["evaluations"] += r["evaluations"]
        agg["generated"] += r["generated"]
        agg["nontrivial"].update(r["nontrivial"])
        for k, v in r["classes"].items():
            agg["classes"][k] = agg["classes"].get(k, 0) + v
        for k, v in r["counters"].items():
            agg["counters"][k] = agg["counters"].get(k, 0) + v
        for b, lst in r["failures"].items():
            agg["failures"].setdefault(b, []).extend([x for x in lst if x])
        for b, n in r["failure_counts"].items():
            agg["failure_counts"][b] = agg["failure_counts"].get(b, 0) + n
        agg["samples"].extend(r["samples"][:2])
        agg["harness_errors"].extend(r["harness_errors"])
        agg["skipped_budget"] += r["skipped_budget"]

    setup_dask()
    known = load_known()
    violations = []
    known_seen = {}
    unconfirmed = []
    for b, lst in sorted(agg["failures"].items()):
        # classify every collected representative; known ones are reported once per entry
        unknown = []
        for item in lst:
            ent = classify_known(pid, item["case"], item["rec"], known)
            if ent is not None:
                known_seen.setdefault(ent["id"], {"ent": ent, "n": 0})
                known_seen[ent["id"]]["n"] += 1
            else:
                unknown.append(item)
        if not unknown:
            continue
        item = unknown[0]
        ok, out = confirm_fresh(pid, item["case"], b) if not getattr(mod, "NO_FRESH_CONFIRM", False) else (True, "")
        if not ok:
            # try the other representatives before giving up
            for alt in unknown[1:4]:
                ok, out = confirm_fresh(pid, alt["case"], b)
                if ok:
                    item = alt
                    break
        if not ok:
            unconfirmed.append({"bucket": b, "case": item["case"], "rec": item["rec"], "fresh_output": out[-800:]})
            continue
        case = item["case"]
        if hasattr(mod, "setup_worker"):
            try:
                mod.setup_worker({"tier": tier, "seed": seed, "worker": 0, "nworkers": 1})
            except Exception:
                pass
        max_evals = getattr(mod, "MINIMISE_EVALS", {"quick": 250, "thorough": 1500})[tier]
        small, evals = minimise(mod, case, b, max_evals=max_evals)
        recs = [r for r in check_single(mod, small) if bucket_of(r) == b] or [item["rec"]]
        ent = classify_known(pid, small, recs[0], known)
        if ent is not None:
            known_seen.setdefault(ent["id"], {"ent": ent, "n": 0})
            known_seen[ent["id"]]["n"] += 1
            continue
        if hasattr(mod, "replay_case"):
            small = mod.replay_case(small, recs[0])
        path = write_replay(pid, small, recs[0], note=f"bucket={b}; minimised with {evals} evaluations; occurrences={agg['failure_counts'].get(b)}")
        violations.append({"bucket": b, "replay": path, "rec": recs[0]})

    # history-dependent (unconfirmed) failures are violations of *session independence*;
    # they are reported for this property only if they reproduce in-process twice
    for u in unconfirmed:
        recs = check_single(mod, u["case"])
        if any(bucket_of(r) == u["bucket"] for r in recs):
            path = write_replay(pid, u["case"], u["rec"], note=f"bucket={u['bucket']}; reproduces in the worker process but NOT in a fresh interpreter (history dependent)")
            violations.append({"bucket": u["bucket"], "replay": path, "rec": u["rec"], "history_dependent": True})

    wall = time.monotonic() - t0
    for kid, v in sorted(known_seen.items()):
        print(f"KNOWN-FINDING: property={pid} {kid} {v['ent']['description']} (seen {v['n']}x)")
    for v in violations:
        print(f"VIOLATION property={pid} replay={v['replay']}")
        print("  " + (v["rec"].get("detail") or "")[:300].replace("\n", " "))
    if args.discover:
        for b, n in sorted(agg["failure_counts"].items()):
            print(f"BUCKET n={n} {b}")

    # ------------------------------------------------------------ evidence
    coverage = {
        "evaluations": agg["evaluations"],
        "distinct_nontrivial": len(agg["nontrivial"]),
        "rule": mod.RULE,
        "samples": agg["samples"][:6],
        "cases_generated": agg["generated"],
        "class_histogram": dict(sorted(agg["classes"].items(), key=lambda kv: -kv[1])[:80]),
        "counters": agg["counters"],
        "known_findings_seen": {k: v["n"] for k, v in known_seen.items()},
        "failure_buckets": agg["failure_counts"],
        "skipped_for_budget": agg["skipped_budget"],
        "inconclusive": agg["skipped_budget"] > 0,
        "workers": nworkers,
    }
    if hasattr(mod, "coverage_extra"):
        try:
            coverage.update(mod.coverage_extra(tier, agg))
        except Exception:
            pass
    ev = {
        "property_id": pid,
        "tier": tier,
        "seed": seed,
        "level": getattr(mod, "LEVEL", "exploration"),
        "coverage": coverage,
        "assumptions": getattr(mod, "ASSUMPTIONS", []),
        "wall_s": round(wall, 2),
        "violations": len(violations),
    }
    os.makedirs(os.path.join(VERIF_ROOT, "evidence"), exist_ok=True)
    with open(os.path.join(VERIF_ROOT, "evidence", f"{pid}.json"), "w") as f:
        json.dump(ev, f, indent=1, default=str)
    print(f"{pid} tier={tier} seed={seed}: evaluations={agg['evaluations']} nontrivial={len(agg['nontrivial'])} known={len(known_seen)} violations={len(violations)} wall={wall:.1f}s" + (" INCONCLUSIVE(budget)" if agg["skipped_budget"] else ""))
    if harness_fail or agg["harness_errors"]:
        print("HARNESS-ERROR", harness_fail or "", file=sys.stderr)
        for he in agg["harness_errors"][:3]:
            print(he["error"], file=sys.stderr)
            print("  case:", json.dumps(he["case"], default=str)[:1500], file=sys.stderr)
        if not violations:
            return 2
    if violations and not args.discover:
        return 1
    return 0


if __name__ == "__main__":
    sys.exit(main())
