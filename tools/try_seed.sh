#!/bin/sh
# usage: tools/try_seed.sh <patch.diff> <ID> [ID...]   -- applies the patch to /repo, runs the quick checks, reverts
P=$1; shift
git -C /repo apply "$(realpath $P)" || exit 3
for id in "$@"; do
  echo "=== $id with $(basename $(dirname $P))"
  ./check $id --tier ${TIER:-quick} 2>&1 | grep -v condarc | grep -E "VIOLATION|KNOWN|tier=|HARNESS" | head -8
done
git -C /repo checkout -- . 
git -C /repo status --short | head -3
