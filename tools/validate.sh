#!/bin/sh
# validate MANIFEST.json and every evidence file against the schemas (uses the tooling venv for jsonschema)
python3-vt - <<'PY'
import json, jsonschema, glob, sys
jsonschema.validate(json.load(open('/verif/MANIFEST.json')), json.load(open('/root/.vp/MANIFEST.schema.json')))
print('MANIFEST ok')
sch = json.load(open('/root/.vp/EVIDENCE.schema.json'))
bad = 0
for f in sorted(glob.glob('/verif/evidence/*.json')):
    try:
        jsonschema.validate(json.load(open(f)), sch); print('ok', f)
    except Exception as e:
        bad += 1; print('BAD', f, str(e)[:300])
sys.exit(1 if bad else 0)
PY
