#!/bin/sh
# usage: tools/sweep_thorough.sh "<ids>" [seed]  -- thorough tiers in discover mode (development)
IDS=$1; s=${2:-1}
for id in $IDS; do
  echo "=== $id seed=$s tier=thorough"
  VERIF_SEED=$s ./check $id --tier thorough --discover 2>&1 | grep -v condarc | grep -E "VIOLATION|KNOWN|BUCKET|tier=|HARNESS|^  " | cut -c1-400 | head -40
done
