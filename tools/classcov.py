#!/venv/bin/python
"""Development aid: which Expr subclasses of dask_expr are reached by the systematic and random programs (logical + fused plans)."""
import sys, json, collections
sys.path.insert(0,'/verif')
import vlib; vlib.setup_dask()
from vlib import templates, interp, plans, gen
from vlib.props import c01, c02
import dask_expr
from dask_expr._core import Expr
import importlib, pkgutil, inspect
mods=['dask_expr._expr','dask_expr._reductions','dask_expr._groupby','dask_expr._merge','dask_expr._shuffle','dask_expr._repartition','dask_expr._concat','dask_expr._cumulative','dask_expr._indexing','dask_expr._rolling','dask_expr._quantiles','dask_expr._str_accessor','dask_expr._datetime','dask_expr._categorical','dask_expr._accessor','dask_expr._merge_asof','dask_expr._describe','dask_expr._quantile','dask_expr._resample','dask_expr.io.io','dask_expr.io.parquet','dask_expr._dummies','dask_expr._backends','dask_expr._version']
allc={}
for m in mods:
    try: mod=importlib.import_module(m)
    except Exception as e: print('noimport',m,e); continue
    for n,o in inspect.getmembers(mod, inspect.isclass):
        if issubclass(o,Expr) and o.__module__==m: allc[n]=m
seen=collections.Counter()
cases=templates.c01_cases('quick')+templates.sibling_cases('quick')
try: cases+=c02.systematic('quick')[:3000]
except Exception as e: print('c02 sys',e)
n=0
for c in cases:
    try:
        prog=c.get('prog',c) if isinstance(c,dict) else c
        dv=interp.run_dask(prog)
        for v in dv.values():
            e=getattr(v,'expr',None)
            if e is None: continue
            for st in ('logical','fused'):
                try:
                    ee=plans.optimize_until(e,st) if st!='logical' else e
                    for x in ee.walk(): seen[type(x).__name__]+=1
                except Exception: pass
        n+=1
    except Exception as ex:
        pass
print('cases',n)
missing=sorted(k for k in allc if k not in seen)
print('total classes',len(allc),'seen',len([k for k in allc if k in seen]))
bym=collections.defaultdict(list)
for k in missing: bym[allc[k]].append(k)
for m,v in bym.items(): print(m, v)

# ---- random programs
from hypothesis import given, settings, seed, HealthCheck, Phase
progs=[]
for mod in (c01, c02):
    try:
        strat=mod.strategy('quick')
    except Exception as e:
        print('nostrategy',mod.__name__,e); continue
    @seed(1)
    @settings(max_examples=1500, database=None, deadline=None, suppress_health_check=list(HealthCheck), phases=[Phase.generate])
    @given(strat)
    def coll(p): progs.append(p)
    coll()
print('random progs',len(progs))
ops=collections.Counter()
for prog in progs:
    try:
        for s in prog['steps']: ops[s['op']]+=1
        dv=interp.run_dask(prog)
        for v in dv.values():
            e=getattr(v,'expr',None)
            if e is None: continue
            for x in e.walk(): seen[type(x).__name__]+=1
            try:
                for x in plans.optimize_until(e,'fused').walk(): seen[type(x).__name__]+=1
            except Exception: pass
    except Exception as ex: pass
missing=sorted(k for k in allc if k not in seen)
print('AFTER RANDOM: total classes',len(allc),'seen',len([k for k in allc if k in seen]))
bym=collections.defaultdict(list)
for k in missing: bym[allc[k]].append(k)
for m,v in bym.items(): print(m, v)
print(sorted(ops.items(), key=lambda kv:-kv[1]))
