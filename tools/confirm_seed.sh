#!/bin/sh
# usage: tools/confirm_seed.sh <worktree>  -- confirms demo fails with / passes without the change, and the suite has no new failures
WT=$1
cd $WT || exit 2
OUT=$WT/_seeded/confirm.txt
: > $OUT
PYTHONPATH=$WT /venv/bin/python _seeded/demo.py > _seeded/demo_with.log 2>&1; echo "demo_with_change_exit=$?" >> $OUT
# no git stash here: the stash list is shared by all worktrees of one repository
git apply -R _seeded/patch.diff || exit 2
PYTHONPATH=$WT /venv/bin/python _seeded/demo.py > _seeded/demo_without.log 2>&1; echo "demo_without_change_exit=$?" >> $OUT
git apply _seeded/patch.diff || exit 2
git diff -- dask_expr | diff -q - _seeded/patch.diff > /dev/null || { echo "worktree does not hold the patch" >> $OUT; exit 2; }
/venv/bin/python -m pytest -q -p no:cacheprovider --timeout=900 --continue-on-collection-errors --junitxml=$WT/_seeded/junit.xml dask_expr > _seeded/suite.log 2>&1
/venv/bin/python - $WT/_seeded/junit.xml >> $OUT <<'PY'
import json, sys, xml.etree.ElementTree as ET
base = json.load(open('/root/.vp/BASELINE.json'))
stable = set(base['stable_pass'])
root = ET.parse(sys.argv[1]).getroot()
passed = set()
for tc in root.iter('testcase'):
    if not any(ch.tag in ('failure', 'error', 'skipped') for ch in tc):
        passed.add(f"{tc.get('classname')}::{tc.get('name')}")
missing = sorted(t for t in stable if t not in passed)
print(f"suite_with_change: stable={len(stable)} passed={len(passed)} missing_from_stable={len(missing)}")
for m in missing[:10]: print("  MISSING", m)
PY
cat $OUT
