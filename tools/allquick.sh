#!/bin/sh
# runs every registered quick check once (seed from env) and prints one summary line each
for id in $(python3 -c "import json;print(' '.join(c['property_id'] for c in json.load(open('MANIFEST.json'))['checks']))"); do
  ./check $id --tier quick 2>&1 | grep -v condarc | grep -E "VIOLATION|KNOWN|tier=|HARNESS|^  " | cut -c1-400
done
