#!/usr/bin/env python3
"""usage: tools/record_confirm.py <ID>-<x> <worktree> [caught_by...]  -- copies _seeded/confirm.txt into seeded/<id>/ and marks meta.json"""
import json, os, shutil, sys

sid, wt = sys.argv[1], sys.argv[2]
dst = os.path.join(os.path.dirname(os.path.dirname(os.path.abspath(__file__))), "seeded", sid)
shutil.copy(os.path.join(wt, "_seeded", "confirm.txt"), os.path.join(dst, "confirm.txt"))
lines = open(os.path.join(dst, "confirm.txt")).read().split("\n")
lines = [l for l in lines if l]
ok = "demo_with_change_exit=1" in lines and "demo_without_change_exit=0" in lines and any("missing_from_stable=0" in l for l in lines)
m = json.load(open(os.path.join(dst, "meta.json")))
m["verified_by_me"] = {"confirm_txt": lines, "ok": ok, "how": "tools/confirm_seed.sh <scratch worktree>: demo.py with and without the change (git apply -R), full repository suite with the change compared with BASELINE stable_pass"}
if len(sys.argv) > 3:
    m["caught_by_quick"] = sys.argv[3:]
json.dump(m, open(os.path.join(dst, "meta.json"), "w"), indent=1)
print(sid, "ok" if ok else "NOT CONFIRMED", lines)
