#!/bin/sh
# usage: tools/sweep.sh "<ids>" "<seeds>" [tier]  -- development sweep (discover mode): prints buckets per run, keeps replays
IDS=$1; SEEDS=$2; TIER=${3:-quick}
for s in $SEEDS; do
  for id in $IDS; do
    echo "=== $id seed=$s tier=$TIER"
    VERIF_SEED=$s ./check $id --tier $TIER --discover 2>&1 | grep -v condarc | grep -E "VIOLATION|KNOWN|BUCKET|tier=|HARNESS|^  " | head -30
  done
done
