#!/bin/sh
# usage: tools/all_seeds.sh [tier]  -- applies every seeded change in turn (to /repo, reverted afterwards) and runs the quick check of its property.
# NEVER run while another check/sweep reads /repo.
cd "$(dirname "$0")/.."
for d in seeded/*/; do
  sid=$(basename $d); id=${sid%%-*}
  if git -C /repo apply "$(realpath $d/patch.diff)" 2>/dev/null; then
    r=$(./check $id --tier ${1:-quick} 2>&1 | grep -E "tier=" | tail -1)
    git -C /repo checkout -- .
    echo "$sid: $r"
  else
    echo "$sid: PATCH DOES NOT APPLY"
  fi
done
git -C /repo status --short | head -3
