#!/venv/bin/python
"""Regenerates /verif/MANIFEST.json from the table below and validates it."""
import json
import os
import sys

ROOT = os.path.dirname(os.path.dirname(os.path.abspath(__file__)))

CHECKS = {
    "C01": dict(
        technique="differential property-based testing (Hypothesis-generated typed programs + rule-trigger templates; unoptimized lowering as oracle)",
        text="Generated search over programs x tables x layouts x stages: every optimizer stage and compute() must agree with the unoptimized lowering executed by an own all-keys executor. Bounded exploration, not proof; bounds in DESIGN §3 C01.",
        note="trusts pandas for executing partition tasks, the own executor (dask.core semantics), and the comparator's order/index freedom derived from static flags",
        ref="§3 C01",
    ),
    "C02": dict(
        technique="reference-model property-based testing: operator catalogue x ALL cuts of a small table (bounded-exhaustive layouts) + Hypothesis multi-step programs, pandas as oracle",
        text="~400 operator templates of every family are executed under every way of cutting an 8-row adversarial table (unknown/known divisions, empty partitions, independent layouts for two inputs) and compared with pandas applied to the concatenated input; plus generated multi-step programs. Explicit refusals are counted. Bounded exploration; known findings D9, D12, D44 listed.",
        note="row order / index labels compared only where the query defines them; dtype kinds with pandas' promotion; approximate operators excluded",
        ref="§3 C02",
    ),
    "C03": dict(
        technique="bounded-exhaustive property-based enumeration of predicate trees over a full valuation table, crossed with filter-crossing contexts and the join legality table; pandas as reference model",
        text="Every predicate tree up to the bound is evaluated under all valuations (true/false/missing) of its atoms in every context a filter can be moved across; the rows returned after optimize() must be exactly the pandas selection (rid multisets, two-sided). Exhaustive inside the stated formula/context box only.",
        note="pandas boolean semantics are the reference; leftsemi reference defined in the check; reader pushdown is covered by C18",
        ref="§3 C03",
    ),
    "C10": dict(
        technique="metamorphic + reference-model property-based testing over knob grids (split_every, split_out, shuffle method, max_branch, broadcast, npartitions, upsample, fuse)",
        text="Each query family is executed under a grid of execution knobs on both sides of the algorithm-selection thresholds; every grid point must equal the pandas result (row order/layout ignored; sort outputs validated as ordered permutations). Bounded grid, deterministic subsample in the quick tier.",
        note="p2p unreachable; float tolerance 1e-9; drop_duplicates(subset=) judged by a validity predicate",
        ref="§3 C10",
    ),
    "C04": dict(
        technique="differential + metamorphic property-based testing (widening sources with unused columns; Hypothesis programs + templates)",
        text="Projection-heavy generated programs: every stage vs the unoptimized lowering, and the metamorphic relation 'extra unused source columns never change the result' in two variants (source-projected, end-projected). Bounded exploration.",
        note="same trusted base as C01; variant E only for programs made of column-independent operators (list in vlib/props/c04.py)",
        ref="§3 C04",
    ),
    "C06": dict(
        technique="property-based testing with a validity predicate over every SSA value x stage (divisions/npartitions/lengths vs all computed partitions)",
        text="Generated programs; every intermediate collection at 4 stages is executed with an all-keys executor and its reported divisions, npartitions, len/shape/size and per-partition lengths are compared with the computed partitions. Bounded exploration.",
        note="divisions passed by the harness to from_map/from_delayed are correct by construction; count reports are skipped where the query itself is ambiguous (partial head of an algorithm-partitioned frame)",
        ref="§3 C06",
    ),
    "C07": dict(
        technique="property-based testing with a schema predicate over every SSA value x stage x partition",
        text="Generated programs; declared container type, labels, names and dtype kinds of every intermediate collection at 4 stages are compared with the computed result and each partition, and with the schema declared before optimization. Bounded exploration.",
        note="int/bool<->float/object promotion and None-vs-NaN names (pandas 3 string inference) are tolerated; no user-supplied meta is generated",
        ref="§3 C07",
    ),
    "C14": dict(
        technique="differential property-based testing fuse=True vs fuse=False per output partition over generated blockwise DAGs",
        text="Generated DAGs of partition-wise operators (shared nodes, broadcast reductions, scalar chains, segments between shuffles): npartitions, divisions, schema and every partition of every intermediate value must be identical with and without fusion, also after fusing twice (nested groups). Bounded exploration.",
        note="row order inside disk-shuffled partitions is compared as a multiset",
        ref="§3 C14",
    ),
    "C08": dict(
        technique="property-based testing across interpreters (hash seeds, construction orders) + metamorphic single-site mutations against an independent structural fingerprint",
        text="Generated program batches are rebuilt in fresh interpreters with other PYTHONHASHSEEDs and construction orders and must produce identical expression names and task keys; inside one process every node, every single-site program variant and every single-operand perturbation must satisfy name(e1)==name(e2) <=> S(e1)==S(e2) for an independently computed structural fingerprint S. Bounded exploration.",
        note="delayed-backed queries excluded from cross-process comparison; disk-shuffle task keys carry a random store token by design (names and output keys compared instead)",
        ref="§3 C08",
    ),
    "C09": dict(
        technique="property-based testing with a validity predicate over materialised task graphs (generated programs x stages, sibling-variant templates)",
        text="For every stage of generated programs the graph dict is scanned: output keys, closure of key references incl. fused sub-graphs, acyclicity, per-expression layer collisions (also across several values of one program computed together), planner objects, cloudpickle, execution. Bounded exploration.",
        note="key-shaped references are recognised structurally; imported (persisted) graphs legitimately reuse key names of what they hold results of",
        ref="§3 C09",
    ),
    "C05": dict(
        technique="property-based testing with a harness-owned scheduler (random, reversed and adversarial topological orders) and an argument-mutation monitor",
        text="Generated programs; the optimized graph (fused and unfused) is executed by an own sequential executor in many dependency-respecting orders, each task seeing only its declared dependencies, with fingerprints of all task arguments, cached values and the user's pandas inputs before/after; real thread pools (1,2,4,16) and repeated computes are sampled on top. Bounded exploration.",
        note="OS-level thread interleavings are only sampled; fused sub-tasks are observed through the unfused plan",
        ref="§3 C05",
    ),
    "C15": dict(
        technique="stateful (rule-based state machine) property-based testing of session histories with fresh-interpreter reference observations, plus injected faults and dataset rewrites",
        text="A Hypothesis RuleBasedStateMachine drives build / optimize / keep-optimized / compute / divisions / len / discard+gc / injected task failure / dataset rewrite steps over a pool of 58 queries that overflows every planner cache; each observation must equal the one obtained by running that query alone in a fresh interpreter. Bounded exploration of histories (seeded), plus hand-written histories.",
        note="parquet plan names are not compared (they contain the session's own path); references cached per run under /verif/.work",
        ref="§3 C15",
    ),
    "C16": dict(
        technique="round-trip property-based testing across interpreters (pickle -> fresh process with empty caches) over generated programs x plan forms",
        text="Generated programs in 4 forms are pickled, loaded by a fresh interpreter and must report the same name, schema, divisions, npartitions and computed result. Bounded exploration; one known finding (D35, name of imported graphs; root cause in dask's tokenizer).",
        note="receivers import vlib.udfs; different forms of a program never share a receiver",
        ref="§3 C16",
    ),
    "C17": dict(
        technique="metamorphic property-based testing: cut-and-resume at every intermediate value x cut kind over generated programs",
        text="Every generated program is cut at every intermediate value with persist / delayed / legacy round trips (5 kinds) and must give the same result, declared schema and divisions as the uncut query. Bounded exploration.",
        note="cuts are only placed where later co-aligned operands stay on one side; from_delayed is called with verify_meta=False",
        ref="§3 C17",
    ),
    "C18": dict(
        technique="round-trip + differential property-based testing over generated parquet datasets (pushdown vs in-memory selection by pandas), both readers",
        text="Generated small datasets are written with to_parquet and read back by both readers; ~45 queries per dataset (projections, filter trees, user filters, partition subsets, len, head, index, fused reads) must equal the same selection done in memory, the round trip must return what was written, reported divisions must be truthful, and overwriting a dataset in use must be refused. Bounded exploration; known finding D50 (root cause in the pinned dask).",
        note="per-case temporary directory under /verif/.work; categorical columns are not combined with row-less files (pandas 3 concat quirk); user filters with != on nullable columns are not generated (reader-specific null semantics)",
        ref="§3 C18",
    ),
    "C19": dict(
        technique="property-based testing of termination (pass-count bound), determinism and idempotence (metamorphic re-optimization) over generated programs",
        text="The fixed-point loops are driven pass by pass with a bound linear in plan size; plans must be identical across repetitions and rebuilds; re-optimized and further-built-on optimized collections must compute the unoptimized result. Bounded exploration; liveness decided as bounded work.",
        note="watchdog hits are inconclusive, never violations; delayed-backed queries are excluded from cross-build name comparison",
        ref="§3 C19",
    ),
    "C11": dict(
        technique="differential property-based enumeration: sources x partition-wise chains x selections against the per-partition outputs of the unoptimized lowering",
        text="12 source kinds x 21 operator chains x ~30 selections (partitions[...] single/slice/reordered/repeated/nested, get_partition, to_delayed, head(n, npartitions=k), tail(n)); every selected partition must equal the corresponding partition of the unoptimized plan, with truthful npartitions/divisions. Bounded enumeration; known finding D47 (IO fusion changes the partition count).",
        note="row order inside shuffled partitions compared as multisets; head/tail of sorted frames accept the documented per-partition answer or the exact global one",
        ref="§3 C11",
    ),
    "C12": dict(
        technique="bounded-exhaustive property-based enumeration of shuffle routes with invariant oracles (permutation, co-location, cross-frame consistency)",
        text="Every (n_in, n_out, max_branch) route up to the bound x method x key kind is executed and checked against invariants over the per-partition outputs; the int-vs-float consistency is observed directly on the two shuffles a hash join plans. Exhaustive inside the stated box only.",
        note="p2p unreachable; partition contents compared as multisets; box bounds in evidence",
        ref="§3 C12",
    ),
    "C13": dict(
        technique="bounded-exhaustive property-based enumeration of (old divisions, new divisions) pairs and (n_in,n_out) grids with a row-order/range oracle",
        text="All division-vector pairs over a small ordered domain (incl. repeated last value, single-value ranges, forced extension), 3 data fillings, 4 index kinds, plus count/size/freq requests and invalid requests that must raise. Exhaustive inside the stated box only.",
        note="input layouts built with from_map(divisions=...) independent of the code under test; one known finding (D19) listed in known_findings.json",
        ref="§3 C13",
    ),
}

NOT_APPLICABLE = {}

ALL = [f"C{i:02d}" for i in range(1, 20)]


def main():
    checks = []
    for pid in ALL:
        if pid not in CHECKS:
            continue
        c = CHECKS[pid]
        checks.append(
            {
                "property_id": pid,
                "quick_cmd": f"./check {pid} --tier quick",
                "thorough_cmd": f"./check {pid} --tier thorough",
                "evidence_file": f"/verif/evidence/{pid}.json",
                "replay_cmd_template": f"./check {pid} --replay {{path}}",
                "engine": "vlib",
                "level_claimed": {"category": c.get("category", "exploration"), "text": c["text"], "design_ref": c["ref"]},
                "level_note": c["note"],
                "technique": c["technique"],
            }
        )
    na = []
    for pid in ALL:
        if pid in CHECKS:
            continue
        na.append({"property_id": pid, "reason": NOT_APPLICABLE.get(pid, "check not built yet in this revision (planned: property-based testing per DESIGN §3); not claimed")})
    man = {
        "version": 1,
        "setup_cmd": "./setup.sh",
        "hooks": {
            "guard": "DASK_EXPR_VERIF",
            "enable": "no hooks: checks import dask_expr from /repo's working tree (develop install) and observe only public API; DASK_EXPR_VERIF is reserved and unused",
            "baseline_off_cmd": "/verif/run_baseline.sh",
            "source_commits": [],
            "add_only": True,
        },
        "engines": [
            {
                "name": "vlib",
                "path": "/verif/vlib",
                "serves_properties": [c["property_id"] for c in checks],
                "kind_free_text": "property-based testing engine: programs-as-data grammar, Hypothesis strategies, bounded-exhaustive enumerations, own task executor, pandas reference interpreter, structural minimiser, replay files",
            }
        ],
        "checks": checks,
        "not_applicable": na,
        "notes": "All checks: exit 0 = held on everything explored (KNOWN-FINDING lines allowed), exit 1 + VIOLATION line, exit 2 = harness error. VERIF_SEED seeds the Hypothesis part; systematic enumerations are seed independent. Genuine defects repaired in /repo are 'fix:' commits listed in known_findings.json.",
    }
    path = os.path.join(ROOT, "MANIFEST.json")
    with open(path, "w") as f:
        json.dump(man, f, indent=1)
    try:
        import jsonschema

        jsonschema.validate(man, json.load(open("/root/.vp/MANIFEST.schema.json")))
        print("MANIFEST valid;", len(checks), "checks;", len(na), "not claimed")
    except ImportError:
        print("jsonschema missing; not validated")


if __name__ == "__main__":
    sys.exit(main())
