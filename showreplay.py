import json,sys
from vlib import interp
for f in sys.argv[1:]:
    d=json.load(open(f))
    print("==", f)
    c = d['case']
    if isinstance(c, dict) and 'steps' in c:
        print(interp.describe(c)); print(c.get('config'))
        print([ (t['name'], t['columns'], t['rows'], t['index'], t['layout']) for t in c['tables']])
    else:
        print(json.dumps(c)[:1500])
    print(d['failure']['detail'][:600]); print(d['note'])
    if len(sys.argv) > 2 and sys.argv[1] == '-t': print(d['failure'].get('traceback'))
