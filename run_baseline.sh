#!/bin/sh
# Runs the repository's pinned baseline test-suite (there are no guarded hooks
# in /repo, so "guard off" is simply the tree as it is) and compares the set of
# passing tests with /root/.vp/BASELINE.json.
# usage: run_baseline.sh [outdir]
OUT=${1:-/verif/.work/baseline}
mkdir -p "$OUT"
cd /repo && /venv/bin/python -m pytest -ra -q -p no:cacheprovider --timeout=900 --continue-on-collection-errors --junitxml="$OUT/junit.xml" > "$OUT/log.txt" 2>&1
/venv/bin/python - "$OUT/junit.xml" <<'PY'
import json, sys, xml.etree.ElementTree as ET
base = json.load(open('/root/.vp/BASELINE.json'))
stable = set(base['stable_pass'])
root = ET.parse(sys.argv[1]).getroot()
passed = set()
for tc in root.iter('testcase'):
    ok = not any(ch.tag in ('failure', 'error', 'skipped') for ch in tc)
    if ok:
        passed.add(f"{tc.get('classname')}::{tc.get('name')}")
missing = sorted(t for t in stable if t not in passed)
print(f"baseline stable={len(stable)} passed_now={len(passed)} missing={len(missing)}")
for m in missing[:40]:
    print("  MISSING", m)
sys.exit(1 if missing else 0)
PY
